"""Content-hash build cache: qlibc objects from /repo's working tree + harness objects.

A cache hit means "same bytes" (source, every header that could be included, flags) - never a
timestamp - so a check on an edited tree recompiles exactly what changed.
"""
import hashlib, os, subprocess, sys, glob, shutil, time
from concurrent.futures import ThreadPoolExecutor

VERIF = os.path.dirname(os.path.dirname(os.path.abspath(__file__)))
REPO = os.environ.get("VERIF_REPO", "/repo")
BUILD = os.path.join(VERIF, "build")
CC = "clang"
CXX = "clang++"

LIB_GLOBS = ["src/containers/*.c", "src/utilities/*.c", "src/ipc/*.c", "src/internal/*.c",
             "src/internal/md5/*.c", "src/extensions/qaconf.c", "src/extensions/qconfig.c",
             "src/extensions/qlog.c", "src/extensions/qtokenbucket.c"]

SAN = {
    "asan": ["-fsanitize=address,undefined", "-fsanitize-recover=address,undefined"],
    "fuzz": ["-fsanitize=fuzzer-no-link,address,undefined", "-fsanitize-recover=address,undefined"],
    "tsan": ["-fsanitize=thread"],
    # unoptimised: every local lives in its stack slot, so reads of uninitialised locals see the
    # pattern the harness fills the stack with before each operation (rt.cpp dirty_stack)
    "asan0": ["-fsanitize=address,undefined", "-fsanitize-recover=address,undefined", "-O0"],
    "plain": [],
    # source-based coverage of the library under the generated cases (tools/coverage.sh; exploration aid only)
    "cov": ["-fprofile-instr-generate", "-fcoverage-mapping"],
}
COMMON = ["-g", "-O1", "-fno-omit-frame-pointer", "-fno-builtin-memcpy", "-fno-builtin-memmove",
          "-fno-builtin-strlen", "-D_GNU_SOURCE", "-DQLIBC_VERIF"]
WRAPS = ["malloc", "calloc", "realloc", "strdup", "free", "pthread_mutex_trylock",
         "pthread_mutex_unlock", "usleep", "popen", "qstrreplace"]


def sha(*parts):
    h = hashlib.sha256()
    for p in parts:
        if isinstance(p, str):
            p = p.encode()
        h.update(p)
        h.update(b"\0")
    return h.hexdigest()[:24]


def fhash(path):
    with open(path, "rb") as f:
        return hashlib.sha256(f.read()).hexdigest()


_hdr_cache = {}


def headers_hash(dirs):
    key = tuple(dirs)
    if key in _hdr_cache:
        return _hdr_cache[key]
    h = hashlib.sha256()
    for d in dirs:
        for root, _, files in sorted(os.walk(d)):
            for fn in sorted(files):
                if fn.endswith((".h", ".hpp")):
                    p = os.path.join(root, fn)
                    h.update(p.encode())
                    h.update(fhash(p).encode())
    _hdr_cache[key] = h.hexdigest()
    return _hdr_cache[key]


def repo_includes():
    return ["-I" + os.path.join(REPO, "include/qlibc"), "-I" + os.path.join(REPO, "src/internal"),
            "-I" + os.path.join(REPO, "include")]


def lib_sources():
    out = []
    for g in LIB_GLOBS:
        out += sorted(glob.glob(os.path.join(REPO, g)))
    return out


def _compile(cmd, out, log):
    tmp = out + ".tmp%d" % os.getpid()
    r = subprocess.run(cmd + ["-o", tmp], stdout=subprocess.PIPE, stderr=subprocess.STDOUT)
    if r.returncode != 0:
        sys.stderr.write("BUILD FAILED: %s\n%s\n" % (" ".join(cmd), r.stdout.decode(errors="replace")))
        try:
            os.unlink(tmp)
        except OSError:
            pass
        raise SystemExit(2)
    os.replace(tmp, out)


def build_objects(jobs):
    """jobs: list of (cmd, out).  Builds missing ones in parallel."""
    todo = [(c, o) for c, o in jobs if not os.path.exists(o)]
    if not todo:
        return 0
    os.makedirs(os.path.join(BUILD, "obj"), exist_ok=True)
    with ThreadPoolExecutor(max_workers=16) as ex:
        list(ex.map(lambda j: _compile(j[0], j[1], None), todo))
    return len(todo)


def lib_objects(flavor, extra_defs=()):
    hh = headers_hash([os.path.join(REPO, "include"), os.path.join(REPO, "src/internal")])
    flags = ["-std=gnu99"] + COMMON + SAN[flavor] + list(extra_defs) + repo_includes()
    jobs, objs = [], []
    for src in lib_sources():
        key = sha("lib", os.path.relpath(src, REPO), fhash(src), hh, " ".join(flags).replace(REPO, "$R"))
        out = os.path.join(BUILD, "obj", "lib-%s-%s-%s.o" % (flavor, os.path.basename(src)[:-2], key))
        jobs.append(([CC] + flags + ["-c", src], out))
        objs.append(out)
    build_objects(jobs)
    return objs


def harness_object(src, flavor, defs=()):
    """src relative to /verif/harness"""
    path = os.path.join(VERIF, "harness", src)
    hh = headers_hash([os.path.join(REPO, "include"), os.path.join(REPO, "src/internal"),
                       os.path.join(VERIF, "harness")])
    flags = ["-std=gnu++17"] + COMMON + SAN[flavor] + list(defs) + repo_includes() + \
            ["-I" + os.path.join(VERIF, "harness"), "-Wall", "-Wno-unused-function", "-Wno-unused-variable",
             "-Wno-deprecated-declarations"]
    key = sha("har", src, fhash(path), hh, " ".join(flags).replace(REPO, "$R"))
    out = os.path.join(BUILD, "obj", "har-%s-%s-%s.o" % (flavor, os.path.basename(src).rsplit(".", 1)[0], key))
    return ([CXX] + flags + ["-c", path], out)


def binary(name, harness_srcs, flavor="asan", fuzz=False, wraps=True, extra_libs=()):
    """Build (or fetch from the cache) one harness binary; returns its path."""
    os.makedirs(os.path.join(BUILD, "bin"), exist_ok=True)
    os.makedirs(os.path.join(BUILD, "obj"), exist_ok=True)
    defs = ["-DVF_FUZZ"] if fuzz else []
    jobs = [harness_object(s, flavor) for s in harness_srcs]
    jobs.append(harness_object("common/main.cpp", flavor, defs))
    jobs.append(harness_object("common/rt.cpp", flavor))
    if wraps:
        jobs.append(harness_object("common/wrap.cpp", flavor))
    libobjs = lib_objects(flavor)
    build_objects(jobs)
    objs = [o for _, o in jobs] + libobjs
    link = [CXX] + SAN[flavor]
    if fuzz:
        link = [CXX, "-fsanitize=fuzzer,address,undefined"]
    if wraps:
        link += ["-Wl,--wrap=" + w for w in WRAPS]
    libs = ["-lpthread"] + ([] if fuzz else ["-lrapidcheck"]) + list(extra_libs)
    key = sha("bin", name, " ".join(os.path.basename(o) for o in objs), " ".join(link + libs))
    out = os.path.join(BUILD, "bin", "%s-%s" % (name, key))
    if not os.path.exists(out):
        _compile(link + objs + libs, out, None)
    return out


def prune(max_bytes=3 << 30):
    """keep the cache bounded: drop least recently used files beyond max_bytes"""
    files = []
    for sub in ("obj", "bin"):
        d = os.path.join(BUILD, sub)
        if os.path.isdir(d):
            for fn in os.listdir(d):
                p = os.path.join(d, fn)
                try:
                    st = os.stat(p)
                    files.append((st.st_atime, st.st_size, p))
                except OSError:
                    pass
    total = sum(f[1] for f in files)
    for at, sz, p in sorted(files):
        if total <= max_bytes:
            break
        try:
            os.unlink(p)
            total -= sz
        except OSError:
            pass
