#!/usr/bin/env python3
"""Regenerates MANIFEST.json from vlib/specs.py (single source of truth for the claimed checks)."""
import json, os, sys
sys.path.insert(0, os.path.dirname(os.path.abspath(__file__)))
import specs
VERIF = os.path.dirname(os.path.dirname(os.path.abspath(__file__)))
allids = [json.loads(l)["id"] for l in open(os.path.join(VERIF, "properties.jsonl"))]
checks = []
for pid in allids:
    if pid not in specs.PROPS:
        continue
    sp = specs.PROPS[pid]
    checks.append(dict(
        property_id=pid,
        quick_cmd="./check %s --tier quick" % pid,
        thorough_cmd="./check %s --tier thorough" % pid,
        evidence_file="evidence/%s.json" % pid,
        replay_cmd_template="./check replay {path} --id %s" % pid,
        engine=", ".join(sorted(set(j["kind"] for j in sp["jobs"]))),
        level_claimed=dict(category=sp["level"], text=sp.get("level_text", ("Fault enumeration" if sp["level"] == "fault_enumeration" else "Exploration") + " by " + sp["technique"] + ". Assurance: every generated / enumerated case is executed against the real code built from /repo's working tree and judged by an explicit oracle; a pass means no violation among the cases counted in the evidence file - strong evidence for a property quantified over histories/inputs/faults, never a proof of absence (enumerated sub-spaces are complete only inside their stated bound). What is generated and what counts as non-trivial: " + sp["rule"]), design_ref=sp.get("design_ref", "DESIGN.md section 3, " + pid)),
        level_note=sp.get("level_note", "Trusted base: the harness's reference model and decoder (harness/), clang 14 sanitizer runtimes, rapidcheck/libFuzzer. Assumes: " + "; ".join(sp.get("assumptions", [])) + ". Generated-input search never establishes absence; bounded-exhaustive parts are complete only inside their stated bound."),
        technique=sp["technique"]))
na = [dict(property_id=p, reason=specs.NOT_APPLICABLE.get(p, "check not built yet in this revision of /verif (planned in DESIGN.md section 3)")) for p in allids if p not in specs.PROPS]
man = dict(
    version=1,
    setup_cmd="./check --setup",
    hooks=dict(guard="QLIBC_VERIF",
               enable="no source hooks: checks compile /repo's sources with clang -DQLIBC_VERIF -fsanitize=address,undefined and instrument from outside via -Wl,--wrap= (malloc family, pthread_mutex_trylock/unlock, usleep, popen, qstrreplace)",
               baseline_off_cmd="cmake --build /repo/_build && ctest --test-dir /repo/_build -j8 --timeout 900",
               source_commits=[], add_only=True),
    engines=[
        dict(name="pbt", path="harness/common/main.cpp", serves_properties=[c["property_id"] for c in checks], kind_free_text="rapidcheck-driven generation + shrinking of byte choice sequences decoded by each harness into cases"),
        dict(name="fuzz", path="harness/common/main.cpp (-DVF_FUZZ)", serves_properties=[p for p in allids if p in specs.PROPS and any(j["kind"] == "fuzz" for j in specs.PROPS[p]["jobs"])], kind_free_text="libFuzzer coverage-guided search over the same choice sequences / parser inputs, semantic oracle inside the target"),
        dict(name="enum", path="harness/*.cpp vf_enumerate", serves_properties=[p for p in allids if p in specs.PROPS and any(j["kind"] == "enum" for j in specs.PROPS[p]["jobs"])], kind_free_text="bounded-exhaustive enumerators sharing the models/oracles"),
    ],
    checks=checks,
    not_applicable=na,
    notes="All checks rebuild the needed qlibc objects from /repo's working tree through a content-hash cache (build/). Known findings and fixed defects: KNOWN_FINDINGS.txt. See DESIGN.md.")
json.dump(man, open(os.path.join(VERIF, "MANIFEST.json"), "w"), indent=1)
print("MANIFEST.json: %d checks, %d not_applicable" % (len(checks), len(na)))
