"""Runs the jobs of one property check, confirms failures by replay, matches known findings,
writes the evidence file and prints the verdict lines."""
import json, os, shutil, struct, subprocess, sys, tempfile, time, glob, hashlib
from concurrent.futures import ThreadPoolExecutor
import build, specs

VERIF = build.VERIF
KNOWN = os.path.join(VERIF, "KNOWN_FINDINGS.txt")

ASAN_BASE = ("abort_on_error=1:handle_abort=0:handle_segv=0:handle_sigbus=0:handle_sigfpe=0:handle_sigill=0:"
             "halt_on_error=0:detect_leaks=0:allocator_may_return_null=1:detect_stack_use_after_return=0:"
             "max_malloc_fill_size=4096:malloc_fill_byte=203:symbolize=1:print_summary=0:detect_odr_violation=0:"
             # the library recurses (tree put/remove/free): with the default 30-frame allocation contexts the number of
             # distinct stacks - and with it ASan's stack depot - grows without bound over a long campaign
             "malloc_context_size=6")
UBSAN_BASE = "halt_on_error=0:print_stacktrace=0:print_summary=0"


def log(msg):
    sys.stdout.write(msg + "\n")
    sys.stdout.flush()


def load_known():
    """returns (findings, fixed): findings = list of dict(property, sig, text)"""
    findings, fixed = [], []
    if not os.path.exists(KNOWN):
        return findings, fixed
    for line in open(KNOWN):
        line = line.strip()
        if not line or line.startswith("#"):
            continue
        kind, _, rest = line.partition(":")
        rest = rest.strip()
        toks = rest.split()
        d = {"text": " ".join(t for t in toks if not t.startswith(("property=", "sig=")))}
        for t in toks:
            if t.startswith("property="):
                d["property"] = t.split("=", 1)[1]
            if t.startswith("sig="):
                d["sig"] = t.split("=", 1)[1]
        if kind == "finding" and "sig" in d and "property" in d:
            findings.append(d)
        elif kind == "fixed":
            fixed.append(d)
    return findings, fixed


def san_env(tmpdir, quiet):
    env = dict(os.environ)
    lp = "/dev/null" if quiet else os.path.join(tmpdir, "san")
    env["ASAN_OPTIONS"] = ASAN_BASE + ":log_path=" + lp
    env["UBSAN_OPTIONS"] = UBSAN_BASE + ":log_path=" + lp
    env["TSAN_OPTIONS"] = "halt_on_error=0:report_signal_unsafe=0:suppressions=" + os.path.join(VERIF, "harness", "tsan.supp") + ":log_path=" + lp
    env.pop("RC_PARAMS", None)
    return env


def run_worker(args):
    (cmd, env, outjson, timeout, logpath) = args
    t0 = time.time()
    with open(logpath, "wb") as lf:
        try:
            r = subprocess.run(cmd, env=env, stdin=subprocess.DEVNULL, stdout=lf, stderr=subprocess.STDOUT, timeout=timeout)
            rc = r.returncode
        except subprocess.TimeoutExpired:
            rc = -999
    res = None
    if os.path.exists(outjson):
        try:
            res = json.load(open(outjson))
        except Exception as e:  # corrupt output = harness bug, surfaces as an error below
            res = None
    return dict(rc=rc, res=res, out=outjson, log=logpath, wall=time.time() - t0, cmd=cmd)


def read_nt(path):
    s = set()
    try:
        data = open(path + ".nt", "rb").read()
        for i in range(0, len(data) - 7, 8):
            s.add(struct.unpack_from("<Q", data, i)[0])
    except OSError:
        pass
    return s


def replay_once(binpath, mode, path, env, verbose=False, timeout=300):
    cmd = [binpath, "replay", "--mode", mode, path] + (["-v"] if verbose else [])
    try:
        r = subprocess.run(cmd, env=env, stdin=subprocess.DEVNULL, stdout=subprocess.PIPE, stderr=subprocess.STDOUT, timeout=timeout)
        out = r.stdout.decode(errors="replace")
        return r.returncode, out
    except subprocess.TimeoutExpired:
        return -999, "replay timed out"


def shrink_crash(binpath, mode, path, env, budget_s=60):
    """Delta-debug a crashing input (fatal signals bypass rapidcheck's shrinking): chunk removal,
    keeping a candidate only if it still dies, or fails with a crash/hang/memory verdict, in
    replay - a candidate that fails for some other reason (e.g. a recorded known finding) is a
    different case, not a smaller one.  The unshrunk input is kept next to it as <path>.orig."""
    data = bytearray(open(path, "rb").read())
    try:
        shutil.copyfile(path, path + ".orig")
    except OSError:
        pass
    t0 = time.time()

    def crashlike(rc, out):
        if rc in (0, 2):
            return False
        if rc < 0 or rc >= 128:
            return True                       # killed by a signal / sanitizer abort
        for ln in out.splitlines():
            if ln.startswith("RESULT: FAIL"):
                return ("cls=CRASH" in ln) or ("cls=HANG" in ln and "crash:" in ln) or ("cls=MEM" in ln)
        return False
    rc0, out0 = replay_once(binpath, mode, path, env, timeout=120)
    if not crashlike(rc0, out0):
        return path                           # does not crash in replay as it is: nothing to minimise against

    def bad(buf):
        tmp = path + ".cand"
        open(tmp, "wb").write(bytes(buf))
        rc, out = replay_once(binpath, mode, tmp, env, timeout=60)
        return crashlike(rc, out)
    chunk = max(1, len(data) // 2)
    while chunk >= 1 and time.time() - t0 < budget_s:
        i = 0
        changed = False
        while i < len(data) and time.time() - t0 < budget_s:
            cand = data[:i] + data[i + chunk:]
            if len(cand) < len(data) and bad(cand):
                data = cand
                changed = True
            else:
                i += chunk
        if not changed:
            chunk //= 2
    open(path, "wb").write(bytes(data))
    try:
        os.unlink(path + ".cand")
    except OSError:
        pass
    return path


def main(argv):
    if not argv or argv[0] in ("-h", "--help"):
        print(__doc__)
        print(open(os.path.join(VERIF, "check")).read().split('"""')[1])
        return 0
    if argv[0] == "--list":
        for pid in sorted(specs.PROPS):
            print(pid, specs.PROPS[pid]["title"])
        return 0
    if argv[0] == "--setup":
        return setup()
    if argv[0] == "replay":
        return replay_cmd(argv[1:])
    pid = argv[0]
    tier = os.environ.get("VERIF_TIER", "quick")
    seed = int(os.environ.get("VERIF_SEED", "1") or "1")
    i = 1
    while i < len(argv):
        if argv[i] == "--tier":
            tier = argv[i + 1]; i += 2
        elif argv[i] == "--seed":
            seed = int(argv[i + 1]); i += 2
        else:
            i += 1
    if tier not in ("quick", "thorough"):
        tier = "quick"
    if pid not in specs.PROPS:
        sys.stderr.write("unknown property %s\n" % pid)
        return 2
    return run_property(pid, tier, seed)


def setup():
    t0 = time.time()
    os.makedirs(os.path.join(VERIF, "evidence"), exist_ok=True)
    seen = set()
    for pid, sp in sorted(specs.PROPS.items()):
        for job in sp["jobs"]:
            key = (job["h"], job.get("flavor", "asan"), job["kind"] == "fuzz")
            if key in seen:
                continue
            seen.add(key)
            get_binary(job)
    build.prune()
    log("setup: %d binaries ready in %.1fs" % (len(seen), time.time() - t0))
    return 0


def get_binary(job):
    h = job["h"]
    hs = specs.HARNESS[h]
    fuzz = job["kind"] == "fuzz"
    # VERIF_FLAVOR (exploration aid, not used by the registered commands): build flavour for the jobs that do not name one
    flavor = job.get("flavor", "fuzz" if fuzz else os.environ.get("VERIF_FLAVOR", "asan"))
    return build.binary(h + ("-fuzz" if fuzz else "") + "-" + flavor, hs["src"], flavor=flavor, fuzz=fuzz,
                        wraps=hs.get("wraps", True), extra_libs=hs.get("libs", ()))


def tierval(v, tier):
    if isinstance(v, (tuple, list)):
        return v[0] if tier == "quick" else v[1]
    return v


def run_property(pid, tier, seed):
    sp = specs.PROPS[pid]
    t0 = time.time()
    findings, fixed = load_known()
    my_findings = [f for f in findings if f["property"] == pid]
    tmpbase = "/dev/shm" if os.path.isdir("/dev/shm") and os.access("/dev/shm", os.W_OK) else None
    tmpdir = tempfile.mkdtemp(prefix="vf-%s-" % pid, dir=tmpbase)
    try:
        return _run_property(pid, sp, tier, seed, my_findings, tmpdir, t0)
    finally:
        if os.environ.get("VERIF_KEEP_TMP"):
            log("kept " + tmpdir)
        else:
            shutil.rmtree(tmpdir, ignore_errors=True)


def _run_property(pid, sp, tier, seed, my_findings, tmpdir, t0):
    tb = time.time()
    workers = []
    jobinfo = []
    widx = 0
    quiet = sp.get("quiet_san", True)
    for jn, job in enumerate(sp["jobs"]):
        if tier == "quick" and job.get("thorough_only"):
            continue
        binpath = get_binary(job)
        n = tierval(job.get("workers", 1), tier)
        mode = job.get("mode", pid)
        for w in range(n):
            wseed = (seed * 1000 + widx * 7 + 1) & 0x7fffffffffff
            out = os.path.join(tmpdir, "w%d.json" % widx)
            faildir = os.path.join(tmpdir, "fail%d" % widx)
            os.makedirs(faildir, exist_ok=True)
            env = san_env(tmpdir, quiet)
            env["VF_EXCLUDE"] = ",".join(f["sig"] for f in my_findings)
            env["VF_CASE_CPU"] = str(job.get("case_cpu", 20))
            env["TMPDIR"] = faildir
            for k, v in job.get("env", {}).items():
                env[k] = str(tierval(v, tier))
            if job["kind"] == "pbt":
                env["VF_CURFILE"] = os.path.join(faildir, "current-%d.bin" % widx)
                cases = tierval(job["cases"], tier)
                env["RC_PARAMS"] = "seed=%d max_success=%d max_size=%d max_discard_ratio=100" % (
                    wseed, cases, tierval(job.get("max_size", 100), tier))
                cmd = [binpath, "pbt", "--mode", mode, "--out", out, "--faildir", faildir, "--scale",
                       str(tierval(job.get("scale", 20), tier)), "--tier", tier, "--variant", str(w)]
            elif job["kind"] == "enum":
                cmd = [binpath, "enum", "--mode", mode, "--out", out, "--faildir", faildir, "--tier", tier,
                       "--variant", str(w)]
                env["VF_ENUM_SHARD"] = "%d/%d" % (w, n)
            elif job["kind"] == "fuzz":
                corpus = os.path.join(tmpdir, "corpus%d" % widx)
                os.makedirs(corpus, exist_ok=True)
                seeds = os.path.join(VERIF, "corpus", job.get("corpus", job["h"] + "-" + mode))
                env["VF_MODE"] = mode
                env["VF_OUT"] = out
                env["VF_TIER"] = tier
                env["VF_FAILDIR"] = faildir
                cmd = [binpath, "-seed=%d" % (wseed & 0x7fffffff or 1), "-runs=%d" % tierval(job["runs"], tier),
                       "-max_total_time=%d" % tierval(job.get("max_time", (60, 600)), tier),
                       "-max_len=%d" % tierval(job.get("max_len", 4096), tier), "-timeout=60", "-rss_limit_mb=4096",
                       "-print_final_stats=1", "-artifact_prefix=" + faildir + "/", "-verbosity=0",
                       "-use_value_profile=1", "-len_control=20"]
                if job.get("dict"):
                    cmd.append("-dict=" + os.path.join(VERIF, "corpus", job["dict"]))
                cmd.append(corpus)
                if os.path.isdir(seeds) and (w % 2 == 0 or not job.get("empty_corpus_share", True)):
                    cmd.append(seeds)          # half of the campaigns start from the empty corpus
            else:
                raise SystemExit("bad job kind")
            timeout = tierval(job.get("timeout", (900, 7200)), tier)
            workers.append((cmd, env, out, timeout, os.path.join(tmpdir, "w%d.log" % widx)))
            jobinfo.append(dict(job=job, bin=binpath, mode=mode, seed=wseed, faildir=faildir, idx=widx))
            widx += 1
    # ---- replay tier: saved (shrunk) inputs of defects found earlier must pass on this tree
    regress = []
    rgdir = os.path.join(VERIF, "regress", pid)
    if os.path.isdir(rgdir):
        for fn in sorted(os.listdir(rgdir)):
            if fn.endswith(".bin"):
                h, mode = fn.split("-")[0], fn.split("-")[1]
                if h in specs.HARNESS:
                    regress.append((fn, h, mode))
    regress_fails = []
    if regress:
        for fn, h, mode in regress:
            envr = san_env(tmpdir, quiet)
            envr["TMPDIR"] = tmpdir
            flavor, menv = replay_meta(os.path.join(rgdir, fn), pid, h, tier)
            rb = get_binary(dict(h=h, kind="pbt", flavor=flavor))
            envr.update(menv)
            rc, out = replay_once(rb, mode, os.path.join(rgdir, fn), envr)
            if rc not in (0, 2):
                res_line = [l for l in out.splitlines() if l.startswith("RESULT: FAIL")]
                regress_fails.append((fn, h, mode, (res_line[0] if res_line else out[-300:])))
    build_s = time.time() - tb
    with ThreadPoolExecutor(max_workers=int(os.environ.get("VERIF_JOBS", "16"))) as ex:
        results = list(ex.map(run_worker, workers))

    # ---- merge
    tot = dict(evaluations=0, passes=0, shrink_evals=0, stopped_other=0, excluded_known=0, total_ops=0,
               sanitizer_reports=0)
    tags, stops, excluded, samples = {}, {}, {}, []
    nt = {}
    enum_tot = {}
    exhaustive_parts = []
    raw_fails = []
    errors = []
    inconclusive = []
    per_job = {}
    for r, ji in zip(results, jobinfo):
        res = r["res"]
        jk = "%s/%s/%s" % (ji["job"]["h"], ji["job"]["kind"], ji["mode"])
        pj = per_job.setdefault(jk, dict(workers=0, evaluations=0, nontrivial_hashes=set()))
        pj["workers"] += 1
        kind = ji["job"]["kind"]
        if res is None:
            # worker died without a result: fatal crash in-process or a build/usage error
            tail = ""
            try:
                tail = open(r["log"], "rb").read()[-1500:].decode(errors="replace")
            except OSError:
                pass
            cur = glob.glob(os.path.join(ji["faildir"], "crash-*")) + glob.glob(os.path.join(ji["faildir"], "current-*"))
            if r["rc"] == -999:
                # the worker ran into its wall-clock limit: inconclusive by itself (load, a stuck sanitizer runtime);
                # the case it was executing is replayed under the CPU-time watchdog and counts only if it fails there
                inconclusive.append("worker %d (%s) stopped at its wall-clock limit after %.0fs" % (ji["idx"], jk, r["wall"]))
                if cur:
                    raw_fails.append(dict(ji=ji, file=cur[0], sig="worker-timeout:%s" % ji["job"]["h"], cls="HANG", msg="worker hit its wall-clock limit while executing this case", trace="", soft=True))
                continue
            if cur and r["rc"] not in (2,):
                raw_fails.append(dict(ji=ji, file=cur[0], sig="process-died:%s" % ji["job"]["h"], cls="CRASH", msg="worker process died while executing this case (rc=%s after %.0fs): %s" % (r["rc"], r["wall"], tail[-600:])))
            else:
                errors.append("worker %d (%s) produced no result (rc=%s, %.0fs): %s" % (ji["idx"], jk, r["rc"], r["wall"], tail[-800:]))
            continue
        for k in tot:
            tot[k] += int(res.get(k, 0))
        pj["evaluations"] += int(res.get("evaluations", 0))
        for k, v in res.get("tags", {}).items():
            tags[k] = tags.get(k, 0) + v
        for k, v in res.get("stops", {}).items():
            stops[k] = stops.get(k, 0) + v
        for k, v in res.get("excluded", {}).items():
            excluded[k] = excluded.get(k, 0) + v
        hs = read_nt(r["out"])
        nt.setdefault(jk, set()).update(hs)
        if "enum" in res:
            for k, v in res["enum"].items():
                if isinstance(v, bool):
                    enum_tot[k] = enum_tot.get(k, True) and v
                elif k.startswith("max_"):
                    enum_tot[k] = max(enum_tot.get(k, 0), v)
                else:
                    enum_tot[k] = enum_tot.get(k, 0) + v
        for smp in res.get("samples", []):
            if len([x for x in samples if x.get("job") == jk]) < 4:
                smp["job"] = jk
                samples.append(smp)
        if kind == "fuzz":
            arts = [p for p in glob.glob(os.path.join(ji["faildir"], "*")) if os.path.basename(p).startswith(("crash-", "leak-"))]
            fl = res.get("fails", [])
            for a in arts:
                f0 = fl[0] if fl else dict(sig="fuzz-crash", cls="CRASH", msg="libFuzzer artifact")
                raw_fails.append(dict(ji=ji, file=a, sig=f0["sig"], cls=f0["cls"], msg=f0["msg"], trace=f0.get("trace", "")))
            # a unit libFuzzer gave up on by wall clock is no verdict by itself (load noise); it becomes one only
            # if the deterministic replay under the CPU-time watchdog fails too
            for a in glob.glob(os.path.join(ji["faildir"], "timeout-*")):
                raw_fails.append(dict(ji=ji, file=a, sig="fuzz-timeout", cls="HANG", msg="libFuzzer unit exceeded its wall-clock limit", trace="", soft=True))
        else:
            for f in res.get("fails", []):
                fp = None
                try:
                    fp = open(r["out"] + ".fail").read().strip()
                except OSError:
                    pass
                if kind == "enum":
                    c = glob.glob(os.path.join(ji["faildir"], "enum-*"))
                    fp = c[0] if c else None
                raw_fails.append(dict(ji=ji, file=fp, sig=f["sig"], cls=f["cls"], msg=f["msg"], trace=f.get("trace", "")))
            if r["rc"] not in (0, 1) and not res.get("fails"):
                errors.append("worker %d (%s) exited with rc=%s" % (ji["idx"], jk, r["rc"]))

    # ---- confirm failures by replay, dedupe by signature
    violations = []
    soft_noise = []
    seen_sig = set()
    rdir = os.path.join(os.environ.get("VERIF_REPLAY_DIR", os.path.join(VERIF, "replays")), pid)
    for f in raw_fails:
        ji = f["ji"]
        kind = ji["job"]["kind"]
        if f["sig"] in seen_sig:
            continue
        dst = None
        reps = "n/a"
        if f["file"] and os.path.exists(f["file"]):
            if kind != "enum":
                env = san_env(tmpdir, quiet)
                env["VF_CASE_CPU"] = str(ji["job"].get("case_cpu", 20))
                if my_findings:
                    env["VF_EXCLUDE"] = ",".join(kf["sig"] for kf in my_findings)     # a recorded finding is not a reproduction of something else
                    env["VF_REPLAY_KEEP_EXCLUDE"] = "1"
                for k, v in ji["job"].get("env", {}).items():
                    env[k] = str(tierval(v, tier))
                rbin = ji["bin"]
                if kind == "fuzz":
                    rbin = get_binary(dict(ji["job"], kind="pbt", flavor="asan"))
                if f["cls"] == "CRASH":
                    shrink_crash(rbin, ji["mode"], f["file"], env)
                n_fail = 0
                last = ""
                for _ in range(3):
                    rc, out = replay_once(rbin, ji["mode"], f["file"], env)
                    if rc not in (0, 2):
                        n_fail += 1
                        last = out
                reps = "%d/3" % n_fail
                if n_fail == 0 and f.get("soft"):
                    soft_noise.append(os.path.basename(f["file"]))
                    continue
                if n_fail == 0:
                    errors.append("failure %s did not reproduce in replay (0/3) - harness state problem, not counted: %s" % (f["sig"], f["msg"][-300:]))
                    continue
                for ln in last.splitlines():
                    if ln.startswith("RESULT: FAIL"):
                        f["replay_result"] = ln
            os.makedirs(rdir, exist_ok=True)
            ext = ".txt" if kind == "enum" else ".bin"
            nm = "%s-%s-%s%s" % (ji["job"]["h"], ji["mode"], hashlib.sha1(f["sig"].encode()).hexdigest()[:8], ext)
            dst = os.path.join(rdir, nm)
            shutil.copyfile(f["file"], dst)
            if os.path.exists(f["file"] + ".orig"):
                shutil.copyfile(f["file"] + ".orig", dst + ".orig")
            if kind != "enum":
                # how to re-run it: build flavour and the job's environment
                with open(dst + ".meta.json", "w") as mf:
                    json.dump(dict(flavor="asan" if kind == "fuzz" else ji["job"].get("flavor", "asan"),
                                   env={k: str(tierval(v, tier)) for k, v in ji["job"].get("env", {}).items()}), mf)
        seen_sig.add(f["sig"])
        f["replay"] = dst
        f["reproduced"] = reps
        violations.append(f)

    for fn, h, mode, msg in regress_fails:
        violations.append(dict(ji=dict(job=dict(h=h), mode=mode), cls="REGRESSION", sig="regress:" + fn, reproduced="1/1", msg="saved regression input fails again: " + msg, replay=os.path.join(rgdir, fn)))
    # ---- verdict
    for kf in my_findings:
        n = sum(v for k, v in excluded.items() if kf["sig"] in k)
        log("KNOWN-FINDING: property=%s %s [excluded cases this run: %d]" % (pid, kf["text"], n))
    for v in violations:
        log("VIOLATION property=%s replay=%s" % (pid, v["replay"]))
        log("  harness=%s class=%s sig=%s reproduced=%s" % (v["ji"]["job"]["h"], v["cls"], v["sig"], v["reproduced"]))
        log("  " + v["msg"][:1500])
        if v.get("trace"):
            log("  case: " + v["trace"][:1500])
        if v["replay"]:
            log("  replay: ./check replay %s --id %s" % (v["replay"], pid))
    for e in errors:
        log("ERROR: " + e)

    all_nt = sum(len(s) for s in nt.values()) + int(enum_tot.get("nontrivial", 0))   # enumerated cases are distinct by construction
    wall = time.time() - t0
    cov = dict(
        evaluations=max(0, tot["evaluations"] - tot["shrink_evals"]) + len(regress),
        distinct_nontrivial=all_nt,
        rule=sp["rule"],
        samples=samples[:12],
        passes=tot["passes"], shrink_evaluations=tot["shrink_evals"],
        abandoned_for_other_property_failure=tot["stopped_other"], abandoned_reasons=stops,
        excluded_known_finding_cases=tot["excluded_known"], excluded_by_signature=excluded,
        operations_executed=tot["total_ops"], sanitizer_reports_noted=tot["sanitizer_reports"],
        case_classes=tags,
        jobs={k: dict(workers=v["workers"], evaluations=v["evaluations"], distinct_nontrivial=len(nt.get(k, ()))) for k, v in per_job.items()},
        build_seconds=round(build_s, 1),
        regression_inputs_replayed=len(regress),
        fuzzer_wallclock_timeouts_not_reproduced_under_cpu_watchdog=len(soft_noise),
        inconclusive_workers=inconclusive,
        exhaustive=False,
    )
    if enum_tot:
        cov["enumeration"] = enum_tot
        cov["enumeration_note"] = sp.get("enum_note", "bounded-exhaustive part; complete only inside its stated bound")
    ev = dict(property_id=pid, tier=tier, seed=seed, level=sp["level"], coverage=cov,
              assumptions=sp.get("assumptions", []), wall_s=round(wall, 2), violations=len(violations),
              errors=errors, technique=sp.get("technique", ""),
              known_findings=[kf["text"] for kf in my_findings])
    evdir = os.environ.get("VERIF_EVIDENCE_DIR", os.path.join(VERIF, "evidence"))   # experiments on scratch trees redirect this
    os.makedirs(evdir, exist_ok=True)
    evp = os.path.join(evdir, pid + ".json")
    with open(evp + ".tmp", "w") as fh:
        json.dump(ev, fh, indent=1, sort_keys=False)
    os.replace(evp + ".tmp", evp)
    log("%s %s: %d evaluations, %d distinct non-trivial, %d violation(s), %.1fs (build %.1fs)%s" % (
        pid, tier, cov["evaluations"], all_nt, len(violations), wall, build_s,
        ", abandoned=%d" % tot["stopped_other"] if tot["stopped_other"] else ""))
    if violations:
        return 1
    if errors:
        return 3        # machinery problem: neither pass nor violation
    return 0


def replay_meta(path, pid, h, tier="quick"):
    """(flavor, env) with which a saved input has to be re-run: from its .meta.json sidecar; without one,
    the default build and the environment of the property's first default-flavour job of that harness"""
    mp = path + ".meta.json"
    if os.path.exists(mp):
        try:
            m = json.load(open(mp))
            return m.get("flavor", "asan"), dict(m.get("env", {}))
        except ValueError:
            pass
    for job in specs.PROPS.get(pid, {}).get("jobs", []):
        if job["h"] == h and job.get("flavor", "asan") == "asan" and job["kind"] != "fuzz":
            return "asan", {k: str(tierval(v, tier)) for k, v in job.get("env", {}).items()}
    return "asan", {}


def replay_cmd(argv):
    path = None
    pid = None
    i = 0
    while i < len(argv):
        if argv[i] == "--id":
            pid = argv[i + 1]; i += 2
        else:
            path = argv[i]; i += 1
    if not path or not os.path.exists(path):
        sys.stderr.write("usage: check replay <file> [--id ID]\n")
        return 2
    base = os.path.basename(path)
    if path.endswith(".txt"):
        print(open(path).read())
        return 1
    # file name: <harness>-<mode>-<hash>.bin
    parts = base.rsplit(".", 1)[0].split("-")
    h, mode = parts[0], parts[1] if len(parts) > 1 else ""
    if h not in specs.HARNESS:
        # a file not named by the driver (e.g. findings/C17-...): harness = the property's first generated-input job
        pid = pid or (h if h in specs.PROPS else None)
        jobs = [j for j in specs.PROPS.get(pid, {}).get("jobs", []) if j["kind"] == "pbt"]
        if not jobs:
            sys.stderr.write("cannot tell which harness %s belongs to; use --id ID\n" % base)
            return 2
        h, mode = jobs[0]["h"], pid
    if pid is None:
        pid = mode
    flavor, menv = replay_meta(path, pid, h)
    binpath = get_binary(dict(h=h, kind="pbt", flavor=flavor))
    tmpdir = tempfile.mkdtemp(prefix="vf-replay-", dir="/dev/shm" if os.path.isdir("/dev/shm") else None)
    try:
        env = san_env(tmpdir, False)
        env["ASAN_OPTIONS"] = env["ASAN_OPTIONS"].replace("log_path=" + os.path.join(tmpdir, "san"), "log_path=stderr")
        env["UBSAN_OPTIONS"] = env["UBSAN_OPTIONS"].replace("log_path=" + os.path.join(tmpdir, "san"), "log_path=stderr")
        env["TMPDIR"] = tmpdir
        env.update(menv)
        r = subprocess.run([binpath, "replay", "--mode", mode, path, "-v"], env=env)
        return 1 if r.returncode not in (0,) else 0
    finally:
        shutil.rmtree(tmpdir, ignore_errors=True)
