// h_fault.cpp - fault enumeration over every public operation of every lockable / allocating
// container.  Modes:
//   C14  every operation returns with the container lock at the depth it had on entry
//        (wrapped trylock/unlock accounting + a real trylock from a probe thread), on every
//        outcome class and at every allocation-failure point;
//   C15  an allocation failure at any point is either survived or reported, and a reported
//        failure leaves the observable state exactly as before; invariants hold, later
//        operations agree with an undisturbed twin, nothing leaks, no crash.
// One case = (container kind, generated state prefix).  For that state EVERY operation of the
// kind is run with generated arguments and EVERY allocation index 0 (no fault), 1..N, and
// "all allocations from the first one fail" - each trial on a fresh rebuild of the state.
#include "common/vf.hpp"
#include <dirent.h>
#include <cerrno>
#include <csignal>
#include <cinttypes>
#include <pthread.h>
#include <semaphore.h>
#include <sys/stat.h>
#include <unistd.h>
#include <ctime>
#include <algorithm>
extern "C" {
#include "qlibc.h"
#include "qlibcext.h"
}
#include "common/via_members.hpp"   // after the prototypes: container calls go through the member pointers in half of the cases
using namespace vf;
const char *vf_harness_name = "fault";

namespace {
// ------------------------------------------------------------------ lock depth accounting
std::map<void *, long> g_depth;
int hook_trylock(void *m, int (*real)(void *)) { int r = real(m); if (r == 0) g_depth[m]++; return r; }
int hook_unlock(void *m, int (*real)(void *)) { int r = real(m); if (r == 0) g_depth[m]--; return r; }
int hook_usleep(unsigned) { return 0; }

// probe thread: can another thread take the container's mutex right now?
sem_t g_req, g_ack; void *volatile g_probe_mutex = nullptr; volatile int g_probe_result = 0; bool g_probe_started = false;
extern "C" int __real_pthread_mutex_trylock(pthread_mutex_t *);
extern "C" int __real_pthread_mutex_unlock(pthread_mutex_t *);
void *probe_main(void *) {
    for (;;) {
        sem_wait(&g_req);
        pthread_mutex_t *m = (pthread_mutex_t *)g_probe_mutex;
        int r = __real_pthread_mutex_trylock(m);
        if (r == 0) __real_pthread_mutex_unlock(m);
        g_probe_result = r;
        sem_post(&g_ack);
    }
    return nullptr;
}
int probe(void *mutex) {
    if (!g_probe_started) { sem_init(&g_req, 0, 0); sem_init(&g_ack, 0, 0); pthread_t t; pthread_create(&t, nullptr, probe_main, nullptr); pthread_detach(t); g_probe_started = true; }
    g_probe_mutex = mutex; sem_post(&g_req); sem_wait(&g_ack);
    return g_probe_result;
}

// ------------------------------------------------------------------ generic container interface
struct Args { std::string key, val; long idx = 0; bool newmem = false; int sub = 0; long num = 0; };
struct Res { bool failed = false; std::string obs; };
static void addobs(Res &r, const void *p, size_t n) { r.obs.append((const char *)p, n); r.obs.push_back('|'); }
FILE *g_devnull = nullptr;
std::string g_tmpdir;

static int count_fds(std::string *what = nullptr) { return count_open_fds(what); }
struct Cont {
    virtual ~Cont() {}
    virtual const char *kind() = 0;
    virtual bool create(bool threadsafe) = 0;
    virtual void *mutex() = 0;
    virtual std::vector<const char *> ops() = 0;
    virtual int nmutators() = 0;                           // ops [0, nmutators) may change the state (used for prefixes)
    virtual Res run(int op, const Args &a) = 0;
    virtual std::string snapshot() = 0;
    virtual const char *invariant() = 0;
    virtual void destroy() = 0;
    // the caller's own lock()/unlock() around a compound operation (false: the kind has no public lock)
    virtual bool outer_lock() { return false; }
    virtual void outer_unlock() {}
};
#define VOIDOP(stmt) do { errno = 0; stmt; r.failed = (errno == ENOMEM); } while (0)

// ---- tree
struct TreeC : Cont {
    qtreetbl_t *t = nullptr;
    bool outer_lock() { qtreetbl_lock(t); return true; }
    void outer_unlock() { qtreetbl_unlock(t); }
    const char *kind() { return "qtreetbl"; }
    bool create(bool ts) { t = qtreetbl(ts ? QTREETBL_THREADSAFE : 0); return t != nullptr; }
    void *mutex() { return t ? t->qmutex : nullptr; }
    std::vector<const char *> ops() { return {"put", "putstr", "putstrf", "putobj", "remove", "removeobj", "clear", "get", "getstr", "getobj", "getnext-walk", "find_min", "find_max", "find_nearest", "size", "debug", "lock+unlock", "put(NULL name)", "get(NULL name)", "put(the key's own stored value)", "150 complete getnext walks"}; }
    int nmutators() { return 7; }
    Res run(int op, const Args &a) {
        Res r; std::string kz = a.key; const char *k = kz.c_str(); size_t kn = kz.size() + 1;
        switch (op) {
            case 0: r.failed = !qtreetbl_put(t, k, a.val.data(), a.val.size()); break;
            case 1: r.failed = !qtreetbl_putstr(t, k, a.val.c_str()); break;
            case 2: r.failed = !qtreetbl_putstrf(t, k, "%s-%ld", a.val.c_str(), a.num); break;
            case 3: if ((a.sub & 15) == 9) r.failed = !qtreetbl_putobj(t, k, kn, nullptr, 0);    // a key stored without a value (set-like use); lookups of it follow their own paths
                    else r.failed = !qtreetbl_putobj(t, k, kn, a.val.data(), a.val.size()); break;
            case 4: r.failed = !qtreetbl_remove(t, k); break;
            case 5: r.failed = !qtreetbl_removeobj(t, k, kn); break;
            case 6: VOIDOP(qtreetbl_clear(t)); break;
            case 7: { size_t n = 0; void *p = qtreetbl_get(t, k, &n, a.newmem); r.failed = !p; if (p) { addobs(r, p, n); if (a.newmem) free(p); } break; }
            case 8: { char *p = qtreetbl_getstr(t, k, a.newmem); r.failed = !p; if (p) { /* values need not be strings: length unknown */ if (a.newmem) free(p); } break; }
            case 9: { size_t n = 0; void *p = qtreetbl_getobj(t, k, kn, &n, a.newmem); r.failed = !p; if (p) { addobs(r, p, n); if (a.newmem) free(p); } break; }
            case 10: { qtreetbl_obj_t o; memset(&o, 0, sizeof o); size_t steps = 0; errno = 0;
                       while (qtreetbl_getnext(t, &o, a.newmem)) { if (!o.name) { r.obs += "<NULL name>"; } else addobs(r, o.name, o.namesize); if (o.data) addobs(r, o.data, o.datasize); else r.obs += "<NULL data>|"; if (a.newmem) { free(o.name); free(o.data); } if (++steps > 10000) break; }
                       r.failed = errno == ENOMEM; break; }
            case 11: { size_t n = 0; void *p = qtreetbl_find_min(t, &n); r.failed = !p; if (p) { addobs(r, p, n); free(p); } break; }
            case 12: { size_t n = 0; void *p = qtreetbl_find_max(t, &n); r.failed = !p; if (p) { addobs(r, p, n); free(p); } break; }
            case 13: { errno = 0; qtreetbl_obj_t o = qtreetbl_find_nearest(t, k, kn, a.newmem); r.failed = o.name == nullptr; if (o.name) { addobs(r, o.name, o.namesize); if (o.data) addobs(r, o.data, o.datasize); else r.obs += "<NULL data>|"; } else if (errno != ENOMEM && errno != ENOENT && t->num > 0) r.obs += "<no result, no error>"; if (a.newmem) { free(o.name); free(o.data); } break; }
            case 14: r.obs = std::to_string(qtreetbl_size(t)); break;
            case 15: r.failed = !qtreetbl_debug(t, g_devnull); break;
            case 16: qtreetbl_lock(t); qtreetbl_unlock(t); break;
            case 17: r.failed = !qtreetbl_putobj(t, nullptr, 0, a.val.data(), a.val.size()); break;
            case 19: { size_t sz = 0; void *p = qtreetbl_getobj(t, k, kn, &sz, false); r.failed = !p || !qtreetbl_putobj(t, k, kn, p, sz); break; }   // data pointer = the table's own copy
            case 20: { // long-run state: the table's walk counter wraps after 128 complete walks
                       size_t total = 0; for (int w = 0; w < 150; w++) { qtreetbl_obj_t o; memset(&o, 0, sizeof o); size_t steps = 0; while (qtreetbl_getnext(t, &o, false)) { if (++steps > 10000) break; } total += steps; }
                       r.obs = std::to_string(total); break; }
            default: r.failed = qtreetbl_getobj(t, nullptr, 0, nullptr, a.newmem) == nullptr;
        }
        return r;
    }
    static void walk(qtreetbl_obj_t *o, std::string &s, size_t *n, int d) { if (!o || d > 200) return; walk(o->left, s, n, d + 1); (*n)++; if (o->name) s.append((const char *)o->name, o->namesize); else s += "<NULL name>"; s += "="; if (o->data) s.append((const char *)o->data, o->datasize); else s += "<NULL>"; s += ";"; walk(o->right, s, n, d + 1); }
    std::string snapshot() { std::string s; size_t n = 0; walk(t->root, s, &n, 0); return s + "#num=" + std::to_string(qtreetbl_size(t)); }
    static bool ordered(qtreetbl_obj_t *o, qtreetbl_obj_t **prev, size_t *n) { if (!o) return true; if (!ordered(o->left, prev, n)) return false; if (!o->name) return false; if (*prev && qtreetbl_byte_cmp((*prev)->name, (*prev)->namesize, o->name, o->namesize) >= 0) return false; *prev = o; (*n)++; return ordered(o->right, prev, n); }
    const char *invariant() { if (qtreetbl_check(t) != 0) return "qtreetbl_check() != 0 (not a valid LLRB tree)"; qtreetbl_obj_t *p = nullptr; size_t n = 0; if (!ordered(t->root, &p, &n)) return "keys out of order / node without a key"; if (n != t->num) return "key count differs from the nodes reachable"; return nullptr; }
    void destroy() { if (t) qtreetbl_free(t); t = nullptr; }
};

// ---- hashtbl
struct HashC : Cont {
    qhashtbl_t *t = nullptr; size_t range;
    bool outer_lock() { qhashtbl_lock(t); return true; }
    void outer_unlock() { qhashtbl_unlock(t); }
    HashC(size_t r) : range(r) {}
    const char *kind() { return "qhashtbl"; }
    bool create(bool ts) { t = qhashtbl(range, ts ? QHASHTBL_THREADSAFE : 0); return t != nullptr; }
    void *mutex() { return t ? t->qmutex : nullptr; }
    std::vector<const char *> ops() { return {"put", "putstr", "putstrf", "putint", "remove", "clear", "get", "getstr", "getint", "getnext-walk", "size", "debug", "lock+unlock", "put(NULL)", "get(NULL)", "remove(NULL)", "put(the key's own stored value)"}; }
    int nmutators() { return 6; }
    Res run(int op, const Args &a) {
        Res r; const char *k = a.key.c_str();
        switch (op) {
            case 0: r.failed = !qhashtbl_put(t, k, a.val.data(), a.val.size()); break;
            case 1: r.failed = !qhashtbl_putstr(t, k, a.val.c_str()); break;
            case 2: r.failed = !qhashtbl_putstrf(t, k, "%s-%ld", a.val.c_str(), a.num); break;
            case 3: r.failed = !qhashtbl_putint(t, k, a.num); break;
            case 4: r.failed = !qhashtbl_remove(t, k); break;
            case 5: VOIDOP(qhashtbl_clear(t)); break;
            case 6: { size_t n = 0; void *p = qhashtbl_get(t, k, &n, a.newmem); r.failed = !p; if (p) { addobs(r, p, n); if (a.newmem) free(p); } break; }
            case 7: { char *p = qhashtbl_getstr(t, k, a.newmem); r.failed = !p; if (p && a.newmem) free(p); break; }
            case 8: { errno = 0; int64_t v = qhashtbl_getint(t, k); r.failed = errno == ENOMEM; r.obs = std::to_string(v); break; }
            case 9: { qhashtbl_obj_t o; memset(&o, 0, sizeof o); size_t steps = 0; errno = 0; std::vector<std::string> seen;
                      while (qhashtbl_getnext(t, &o, a.newmem)) { std::string e = std::string(o.name ? o.name : "<NULL>") + "=" + (o.data ? std::string((char *)o.data, o.size) : "<NULL>"); seen.push_back(e); if (a.newmem) { free(o.name); free(o.data); } if (++steps > 10000) break; }
                      r.failed = errno == ENOMEM; std::sort(seen.begin(), seen.end()); for (auto &e : seen) r.obs += e + ";"; break; }
            case 10: r.obs = std::to_string(qhashtbl_size(t)); break;
            case 11: r.failed = !qhashtbl_debug(t, g_devnull); break;
            case 12: qhashtbl_lock(t); qhashtbl_unlock(t); break;
            case 13: r.failed = !qhashtbl_put(t, nullptr, a.val.data(), a.val.size()); break;
            case 14: r.failed = qhashtbl_get(t, nullptr, nullptr, a.newmem) == nullptr; break;
            case 16: { size_t sz = 0; void *p = qhashtbl_get(t, k, &sz, false); r.failed = !p || !qhashtbl_put(t, k, p, sz); break; }   // data pointer = the table's own copy
            default: r.failed = !qhashtbl_remove(t, nullptr);
        }
        return r;
    }
    std::string snapshot() { std::vector<std::string> v; size_t n = 0; for (size_t i = 0; i < t->range; i++) for (qhashtbl_obj_t *o = t->slots[i]; o && n < 100000; o = o->next, n++) v.push_back(std::string(o->name ? o->name : "<NULL>") + "=" + (o->data ? std::string((char *)o->data, o->size) : "<NULL>")); std::sort(v.begin(), v.end()); std::string s; for (auto &e : v) s += e + ";"; return s + "#num=" + std::to_string(qhashtbl_size(t)); }
    const char *invariant() { size_t n = 0; for (size_t i = 0; i < t->range; i++) for (qhashtbl_obj_t *o = t->slots[i]; o; o = o->next) { if (!o->name || !o->data) return "entry without name or data"; if (o->hash % t->range != i) return "entry chained in the wrong slot"; if (++n > 100000) return "chain does not end"; } if (n != t->num) return "num differs from the entries chained"; return nullptr; }
    void destroy() { if (t) qhashtbl_free(t); t = nullptr; }
};

// ---- hasharr (no lock; allocations: handle, get, getnext, putstrf)
struct HarrC : Cont {
    qhasharr_t *t = nullptr; std::vector<uint8_t> mem; int cap;
    HarrC(int c) : cap(c) {}
    const char *kind() { return "qhasharr"; }
    bool create(bool) { mem.assign(qhasharr_calculate_memsize(cap) + 8, 0); uint8_t *p = mem.data(); p += (8 - ((uintptr_t)p & 7)) & 7; t = qhasharr(p, qhasharr_calculate_memsize(cap)); return t != nullptr; }
    void *mutex() { return nullptr; }
    std::vector<const char *> ops() { return {"put", "putstr", "putstrf", "put_by_obj", "remove", "remove_by_idx", "clear", "get", "getstr", "get_by_obj", "getnext-walk", "size", "debug", "attach second handle"}; }
    int nmutators() { return 7; }
    Res run(int op, const Args &a) {
        Res r; const char *k = a.key.c_str(); size_t kn = a.key.size() + 1;
        switch (op) {
            case 0: r.failed = !qhasharr_put(t, k, a.val.data(), a.val.size()); break;
            case 1: r.failed = !qhasharr_putstr(t, k, a.val.c_str()); break;
            case 2: r.failed = !qhasharr_putstrf(t, k, "%s-%ld", a.val.c_str(), a.num); break;
            case 3: r.failed = !qhasharr_put_by_obj(t, k, kn, a.val.data(), a.val.size()); break;
            case 4: r.failed = !qhasharr_remove(t, k); break;
            case 5: r.failed = !qhasharr_remove_by_idx(t, (int)(((unsigned long)a.idx) % (unsigned long)cap)); break;
            case 6: VOIDOP(qhasharr_clear(t)); break;
            case 7: { size_t n = 0; void *p = qhasharr_get(t, k, &n); r.failed = !p; if (p) { addobs(r, p, n); free(p); } break; }
            case 8: { char *p = qhasharr_getstr(t, k); r.failed = !p; free(p); break; }
            case 9: { size_t n = 0; void *p = qhasharr_get_by_obj(t, k, kn, &n); r.failed = !p; if (p) { addobs(r, p, n); free(p); } break; }
            case 10: { int idx = 0; qhasharr_obj_t o; errno = 0; size_t steps = 0; while (qhasharr_getnext(t, &o, &idx)) { addobs(r, o.name, o.namesize); addobs(r, o.data, o.datasize); free(o.name); free(o.data); if (++steps > 10000) break; } r.failed = errno == ENOMEM; break; }
            case 11: { int mx, us; int n = qhasharr_size(t, &mx, &us); r.obs = strf("%d/%d/%d", n, mx, us); break; }
            case 12: r.failed = !qhasharr_debug(t, g_devnull); break;
            default: { qhasharr_t *h = qhasharr(t->data, 0); r.failed = !h; if (h) { int mx, us; int n = qhasharr_size(h, &mx, &us); r.obs = strf("%d/%d/%d", n, mx, us); qhasharr_free(h); } }
        }
        return r;
    }
    std::string snapshot() { return std::string((const char *)t->data, qhasharr_calculate_memsize(cap)); }
    const char *invariant() { qhasharr_data_t *d = t->data; qhasharr_slot_t *sl = (qhasharr_slot_t *)((char *)d + sizeof *d); int used = 0, keys = 0; for (int i = 0; i < d->maxslots; i++) { if (sl[i].count != 0) used++; if (sl[i].count > 0 || sl[i].count == -1) keys++; } if (used != d->usedslots) return "usedslots differs from occupied slots"; if (keys != d->num) return "num differs from key slots"; return nullptr; }
    void destroy() { if (t) qhasharr_free(t); t = nullptr; }
};

// ---- listtbl
struct LtblC : Cont {
    qlisttbl_t *t = nullptr; int options;
    bool outer_lock() { qlisttbl_lock(t); return true; }
    void outer_unlock() { qlisttbl_unlock(t); }
    LtblC(int o) : options(o) {}
    const char *kind() { return "qlisttbl"; }
    bool create(bool ts) { t = qlisttbl(options | (ts ? QLISTTBL_THREADSAFE : 0)); return t != nullptr; }
    void *mutex() { return t ? t->qmutex : nullptr; }
    std::vector<const char *> ops() { return {"put", "putstr", "putstrf", "putint", "remove", "walk+removeobj", "sort", "clear", "load", "get", "getstr", "getint", "getmulti", "getnext-walk", "size", "debug", "lock+unlock", "save", "put(NULL)", "get(NULL)", "removeobj(stale handle, empty table)", "removeobj(NULL)"}; }
    int nmutators() { return 9; }
    Res run(int op, const Args &a) {
        Res r; const char *k = a.key.c_str();
        switch (op) {
            case 0: r.failed = !qlisttbl_put(t, k, a.val.data(), a.val.size()); break;
            case 1: r.failed = !qlisttbl_putstr(t, k, a.val.c_str()); break;
            case 2: r.failed = !qlisttbl_putstrf(t, k, "%s-%ld", a.val.c_str(), a.num); break;
            case 3: r.failed = !qlisttbl_putint(t, k, a.num); break;
            case 4: { errno = 0; size_t n = qlisttbl_remove(t, k); r.obs = std::to_string(n); r.failed = n == 0; break; }
            case 5: { qlisttbl_obj_t o; memset(&o, 0, sizeof o); errno = 0; size_t i = 0; /* several library calls in one op: kept allocation-free (newmem=false) so that no single fault lands in the middle of it */
                      while (qlisttbl_getnext(t, &o, nullptr, false)) { if ((long)i == a.idx % 3) qlisttbl_removeobj(t, &o); if (++i > 10000) break; } break; }
            case 6: VOIDOP(qlisttbl_sort(t)); break;
            case 7: VOIDOP(qlisttbl_clear(t)); break;
            case 8: { std::string p = g_tmpdir + "/load.txt"; ssize_t n = qlisttbl_load(t, p.c_str(), '=', true); r.failed = n < 0; r.obs = std::to_string(n); break; }
            case 9: { size_t n = 0; void *p = qlisttbl_get(t, k, &n, a.newmem); r.failed = !p; if (p) { addobs(r, p, n); if (a.newmem) free(p); } break; }
            case 10: { char *p = qlisttbl_getstr(t, k, a.newmem); r.failed = !p; if (p && a.newmem) free(p); break; }
            case 11: { errno = 0; int64_t v = qlisttbl_getint(t, k); r.failed = errno == ENOMEM; r.obs = std::to_string(v); break; }
            case 12: { size_t n = 0; errno = 0; qlisttbl_data_t *d = qlisttbl_getmulti(t, k, a.newmem, &n); r.failed = d == nullptr; if (d) { for (size_t i = 0; i < n; i++) addobs(r, d[i].data, d[i].size); qlisttbl_freemulti(d); } else if (n != 0 && errno != ENOMEM) r.obs = "<no array but count " + std::to_string(n) + ">"; break; }
            case 13: { qlisttbl_obj_t o; memset(&o, 0, sizeof o); errno = 0; size_t i = 0; while (qlisttbl_getnext(t, &o, a.sub & 1 ? k : nullptr, a.newmem)) { r.obs += o.name ? o.name : "<NULL>"; r.obs += "="; if (o.data) addobs(r, o.data, o.size); else r.obs += "<NULL>|"; if (a.newmem) { free(o.name); free(o.data); } if (++i > 10000) break; } r.failed = errno == ENOMEM; break; }
            case 14: r.obs = std::to_string(qlisttbl_size(t)); break;
            case 15: r.failed = !qlisttbl_debug(t, g_devnull); break;
            case 16: qlisttbl_lock(t); qlisttbl_unlock(t); break;
            case 17: { std::string p = g_tmpdir + "/save.txt"; r.failed = !qlisttbl_save(t, p.c_str(), '=', true); break; }
            case 18: r.failed = !qlisttbl_put(t, nullptr, a.val.data(), a.val.size()); break;
            case 19: r.failed = qlisttbl_get(t, nullptr, nullptr, a.newmem) == nullptr; break;
            case 20: { // a handle whose entry is gone (prev == next == NULL) is only harmless on an empty table: "can't verify object"
                       if (qlisttbl_size(t) != 0) qlisttbl_clear(t);
                       qlisttbl_obj_t o; memset(&o, 0, sizeof o); r.failed = !qlisttbl_removeobj(t, &o); break; }
            default: r.failed = !qlisttbl_removeobj(t, nullptr);
        }
        return r;
    }
    std::string snapshot() { std::string s; size_t n = 0; for (qlisttbl_obj_t *o = t->first; o && n < 100000; o = o->next, n++) { s += o->name ? o->name : "<NULL>"; s += "="; if (o->data) s.append((char *)o->data, o->size); else s += "<NULL>"; s += ";"; } return s + "#num=" + std::to_string(qlisttbl_size(t)); }
    const char *invariant() { size_t n = 0; qlisttbl_obj_t *prev = nullptr; for (qlisttbl_obj_t *o = t->first; o; prev = o, o = o->next) { if (o->prev != prev) return "broken back link"; if (!o->name || !o->data) return "entry without name or data"; if (++n > 100000) return "list does not end"; } if (t->last != prev) return "last pointer wrong"; if (n != t->num) return "num differs from the entries linked"; return nullptr; }
    void destroy() { if (t) qlisttbl_free(t); t = nullptr; }
};

// ---- list / queue / stack / grow
struct ListC : Cont {
    int which; qlist_t *l = nullptr; qqueue_t *q = nullptr; qstack_t *s = nullptr; qgrow_t *g = nullptr;
    ListC(int w) : which(w) {}
    const char *kind() { return which == 0 ? "qlist" : which == 1 ? "qqueue" : which == 2 ? "qstack" : "qgrow"; }
    qlist_t *in() { return which == 0 ? l : which == 1 ? (q ? q->list : nullptr) : which == 2 ? (s ? s->list : nullptr) : (g ? g->list : nullptr); }
    bool outer_lock() { if (!in()) return false; qlist_lock(in()); return true; }
    void outer_unlock() { qlist_unlock(in()); }
    bool create(bool ts) { int o = ts ? QLIST_THREADSAFE : 0; if (which == 0) l = qlist(o); else if (which == 1) q = qqueue(o); else if (which == 2) s = qstack(o); else g = qgrow(o); return l || q || s || g; }
    void *mutex() { return in() ? in()->qmutex : nullptr; }
    std::vector<const char *> ops() {
        if (which == 0) return {"addfirst", "addlast", "addat", "popfirst", "poplast", "popat", "removefirst", "removelast", "removeat", "reverse", "clear", "setsize", "getfirst", "getlast", "getat", "getnext-walk", "toarray", "tostring", "size", "datasize", "debug", "lock+unlock", "addat(NULL)"};
        if (which == 3) return {"add", "addstr", "addstrf", "clear", "toarray", "tostring", "size", "datasize", "debug"};
        return {"push", "pushstr", "pushint", "pop", "popstr", "popint", "popat", "clear", "setsize", "get", "getstr", "getint", "getat", "size", "debug"};
    }
    int nmutators() { return which == 0 ? 12 : which == 3 ? 4 : 9; }
    Res run(int op, const Args &a) {
        Res r; size_t n = 0; void *p;
        if (which == 0) switch (op) {
            case 0: r.failed = !qlist_addfirst(l, a.val.data(), a.val.size()); break;
            case 1: r.failed = !qlist_addlast(l, a.val.data(), a.val.size()); break;
            case 2: r.failed = !qlist_addat(l, (int)a.idx, a.val.data(), a.val.size()); break;
            case 3: p = qlist_popfirst(l, &n); r.failed = !p; if (p) { addobs(r, p, n); free(p); } break;
            case 4: p = qlist_poplast(l, &n); r.failed = !p; if (p) { addobs(r, p, n); free(p); } break;
            case 5: p = qlist_popat(l, (int)a.idx, &n); r.failed = !p; if (p) { addobs(r, p, n); free(p); } break;
            case 6: r.failed = !qlist_removefirst(l); break;
            case 7: r.failed = !qlist_removelast(l); break;
            case 8: r.failed = !qlist_removeat(l, (int)a.idx); break;
            case 9: VOIDOP(qlist_reverse(l)); break;
            case 10: VOIDOP(qlist_clear(l)); break;
            case 11: r.obs = std::to_string(qlist_setsize(l, (size_t)(a.sub % 7))); break;
            case 12: p = qlist_getfirst(l, &n, a.newmem); r.failed = !p; if (p) { addobs(r, p, n); if (a.newmem) free(p); } break;
            case 13: p = qlist_getlast(l, &n, a.newmem); r.failed = !p; if (p) { addobs(r, p, n); if (a.newmem) free(p); } break;
            case 14: p = qlist_getat(l, (int)a.idx, &n, a.newmem); r.failed = !p; if (p) { addobs(r, p, n); if (a.newmem) free(p); } break;
            case 15: { qlist_obj_t o; memset(&o, 0, sizeof o); errno = 0; size_t i = 0; while (qlist_getnext(l, &o, a.newmem)) { addobs(r, o.data, o.size); if (a.newmem) free(o.data); if (++i > 10000) break; } r.failed = i < qlist_size(l); break; }
            case 16: p = qlist_toarray(l, &n); r.failed = !p; if (p) { addobs(r, p, n); free(p); } break;
            case 17: { char *sp = qlist_tostring(l); r.failed = !sp; if (sp) { r.obs = sp; free(sp); } break; }
            case 18: r.obs = std::to_string(qlist_size(l)); break;
            case 19: r.obs = std::to_string(qlist_datasize(l)); break;
            case 20: r.failed = !qlist_debug(l, g_devnull); break;
            case 21: qlist_lock(l); qlist_unlock(l); break;
            default: r.failed = !qlist_addat(l, (int)a.idx, nullptr, 0);
        } else if (which == 3) switch (op) {
            case 0: r.failed = !qgrow_add(g, a.val.data(), a.val.size()); break;
            case 1: r.failed = !qgrow_addstr(g, a.val.c_str()); break;
            case 2: r.failed = !qgrow_addstrf(g, "%s=%ld;", a.val.c_str(), a.num); break;
            case 3: VOIDOP(qgrow_clear(g)); break;
            case 4: p = qgrow_toarray(g, &n); r.failed = !p; if (p) { addobs(r, p, n); free(p); } break;
            case 5: { char *sp = qgrow_tostring(g); r.failed = !sp; if (sp) { r.obs = sp; free(sp); } break; }
            case 6: r.obs = std::to_string(qgrow_size(g)); break;
            case 7: r.obs = std::to_string(qgrow_datasize(g)); break;
            default: r.failed = !qgrow_debug(g, g_devnull);
        } else {
            bool Q = which == 1;
            switch (op) {
                case 0: r.failed = !(Q ? qqueue_push(q, a.val.data(), a.val.size()) : qstack_push(s, a.val.data(), a.val.size())); break;
                case 1: r.failed = !(Q ? qqueue_pushstr(q, a.val.c_str()) : qstack_pushstr(s, a.val.c_str())); break;
                case 2: r.failed = !(Q ? qqueue_pushint(q, a.num) : qstack_pushint(s, a.num)); break;
                case 3: p = Q ? qqueue_pop(q, &n) : qstack_pop(s, &n); r.failed = !p; if (p) { addobs(r, p, n); free(p); } break;
                case 4: { char *sp = Q ? qqueue_popstr(q) : qstack_popstr(s); r.failed = !sp; if (sp) { r.obs = sp; free(sp); } break; }
                case 5: { if (!in()->first || in()->first->size != 8) break;   /* popint/getint only on 8-byte elements (precondition) */
                          size_t before = qlist_size(in()); errno = 0; int64_t v = Q ? qqueue_popint(q) : qstack_popint(s); r.obs = std::to_string(v); r.failed = qlist_size(in()) == before; break; }
                case 6: p = Q ? qqueue_popat(q, (int)a.idx, &n) : qstack_popat(s, (int)a.idx, &n); r.failed = !p; if (p) { addobs(r, p, n); free(p); } break;
                case 7: VOIDOP(Q ? qqueue_clear(q) : qstack_clear(s)); break;
                case 8: r.obs = std::to_string(Q ? qqueue_setsize(q, (size_t)(a.sub % 7)) : qstack_setsize(s, (size_t)(a.sub % 7))); break;
                case 9: p = Q ? qqueue_get(q, &n, a.newmem) : qstack_get(s, &n, a.newmem); r.failed = !p; if (p) { addobs(r, p, n); if (a.newmem) free(p); } break;
                case 10: { char *sp = Q ? qqueue_getstr(q) : qstack_getstr(s); r.failed = !sp; if (sp) { r.obs = sp; free(sp); } break; }
                case 11: { if (!in()->first || in()->first->size != 8) break;
                           errno = 0; int64_t v = Q ? qqueue_getint(q) : qstack_getint(s); r.obs = std::to_string(v); r.failed = errno == ENOMEM; break; }
                case 12: p = Q ? qqueue_getat(q, (int)a.idx, &n, a.newmem) : qstack_getat(s, (int)a.idx, &n, a.newmem); r.failed = !p; if (p) { addobs(r, p, n); if (a.newmem) free(p); } break;
                case 13: r.obs = std::to_string(Q ? qqueue_size(q) : qstack_size(s)); break;
                default: r.failed = !(Q ? qqueue_debug(q, g_devnull) : qstack_debug(s, g_devnull));
            }
        }
        return r;
    }
    std::string snapshot() { std::string sn; size_t n = 0; for (qlist_obj_t *o = in()->first; o && n < 100000; o = o->next, n++) { if (o->data) sn.append((char *)o->data, o->size); else sn += "<NULL>"; sn += ";"; } return sn + "#num=" + std::to_string(qlist_size(in())) + "#bytes=" + std::to_string(qlist_datasize(in())) + "#max=" + std::to_string(in()->max); }
    const char *invariant() { size_t n = 0, b = 0; qlist_obj_t *prev = nullptr; for (qlist_obj_t *o = in()->first; o; prev = o, o = o->next) { if (o->prev != prev) return "broken back link"; if (!o->data) return "element without data"; b += o->size; if (++n > 100000) return "list does not end"; } if (in()->last != prev) return "last pointer wrong"; if (n != in()->num) return "num differs from the elements linked"; if (b != in()->datasum) return "byte total differs from the elements linked"; return nullptr; }
    void destroy() { if (l && which == 0) qlist_free(l); if (q) qqueue_free(q); if (s) qstack_free(s); if (g) qgrow_free(g); l = nullptr; q = nullptr; s = nullptr; g = nullptr; }
};

// ---- vector
struct VecC : Cont {
    qvector_t *v = nullptr; size_t objsize, cap; int policy;
    bool outer_lock() { qvector_lock(v); return true; }
    void outer_unlock() { qvector_unlock(v); }
    VecC(size_t os, size_t c, int p) : objsize(os), cap(c), policy(p) {}
    const char *kind() { return "qvector"; }
    bool create(bool ts) { v = qvector(cap, objsize, policy | (ts ? QVECTOR_THREADSAFE : 0)); return v != nullptr; }
    void *mutex() { return v ? v->qmutex : nullptr; }
    std::vector<const char *> ops() { return {"addfirst", "addlast", "addat", "setfirst", "setlast", "setat", "popfirst", "poplast", "popat", "removefirst", "removelast", "removeat", "reverse", "clear", "resize", "getfirst", "getlast", "getat", "getnext-walk", "toarray", "size", "debug", "lock+unlock", "addat(NULL)", "setat(the element's own storage)"}; }
    int nmutators() { return 15; }
    std::string elem(const Args &a) { std::string e = a.val; e.resize(objsize, 'e'); return e; }
    Res run(int op, const Args &a) {
        Res r; void *p; std::string e = elem(a);
        switch (op) {
            case 0: r.failed = !qvector_addfirst(v, e.data()); break;
            case 1: r.failed = !qvector_addlast(v, e.data()); break;
            case 2: r.failed = !qvector_addat(v, (int)a.idx, e.data()); break;
            case 3: r.failed = !qvector_setfirst(v, e.data()); break;
            case 4: r.failed = !qvector_setlast(v, e.data()); break;
            case 5: r.failed = !qvector_setat(v, (int)a.idx, e.data()); break;
            case 6: p = qvector_popfirst(v); r.failed = !p; if (p) { addobs(r, p, objsize); free(p); } break;
            case 7: p = qvector_poplast(v); r.failed = !p; if (p) { addobs(r, p, objsize); free(p); } break;
            case 8: p = qvector_popat(v, (int)a.idx); r.failed = !p; if (p) { addobs(r, p, objsize); free(p); } break;
            case 9: r.failed = !qvector_removefirst(v); break;
            case 10: r.failed = !qvector_removelast(v); break;
            case 11: r.failed = !qvector_removeat(v, (int)a.idx); break;
            case 12: VOIDOP(qvector_reverse(v)); break;
            case 13: VOIDOP(qvector_clear(v)); break;
            case 14: r.failed = !qvector_resize(v, (a.sub % 16) == 15 ? (size_t)-1 - (size_t)(a.sub / 16 % 3) : (a.sub % 16) == 14 ? (size_t)-1 / objsize + (objsize > 1 ? 1 : 0) : (size_t)(a.sub % 12)); break;
            case 15: p = qvector_getfirst(v, a.newmem); r.failed = !p; if (p) { addobs(r, p, objsize); if (a.newmem) free(p); } break;
            case 16: p = qvector_getlast(v, a.newmem); r.failed = !p; if (p) { addobs(r, p, objsize); if (a.newmem) free(p); } break;
            case 17: p = qvector_getat(v, (int)a.idx, a.newmem); r.failed = !p; if (p) { addobs(r, p, objsize); if (a.newmem) free(p); } break;
            case 18: { qvector_obj_t o; memset(&o, 0, sizeof o); errno = 0; size_t i = 0; while (qvector_getnext(v, &o, a.newmem)) { addobs(r, o.data, objsize); if (a.newmem) free(o.data); if (++i > 10000) break; } r.failed = i < qvector_size(v); break; }
            case 19: { size_t n = 0; p = qvector_toarray(v, &n); r.failed = !p; if (p) { addobs(r, p, n * objsize); free(p); } break; }
            case 20: r.obs = std::to_string(qvector_size(v)); break;
            case 21: r.failed = !qvector_debug(v, g_devnull); break;
            case 22: qvector_lock(v); qvector_unlock(v); break;
            case 24: { void *own = qvector_getat(v, (int)a.idx, false); r.failed = !own || !qvector_setat(v, (int)a.idx, own); break; }   // data pointer = the addressed element itself
            default: r.failed = !qvector_addat(v, (int)a.idx, nullptr);
        }
        return r;
    }
    std::string snapshot() { std::string s; if (v->data && v->num <= v->max) s.assign((const char *)v->data, v->num * v->objsize); return s + "#num=" + std::to_string(qvector_size(v)) + "#objsize=" + std::to_string(v->objsize); }
    const char *invariant() { if (v->num > v->max) return "more elements than capacity"; if (v->max > 0 && !v->data) return "capacity without buffer"; if (v->objsize != objsize) return "element size changed"; return nullptr; }
    void destroy() { if (v) qvector_free(v); v = nullptr; }
};

// ---- qlog (C14 only: the property's file list names it)
struct LogC : Cont {
    qlog_t *l = nullptr;
    const char *kind() { return "qlog"; }
    bool create(bool ts) { std::string p = g_tmpdir + "/vf.log"; l = qlog(p.c_str(), 0644, 0, ts ? QLOG_OPT_THREADSAFE : 0); return l != nullptr; }
    void *mutex() { return l ? l->qmutex : nullptr; }
    std::vector<const char *> ops() { return {"write", "writef", "duplicate", "flush", "write(rotation due, new file cannot be opened)", "write(rotation due, new file opens)"}; }
    int nmutators() { return 2; }
    Res run(int op, const Args &a) {
        Res r;
        switch (op) {
            case 0: r.failed = !l->write(l, a.val.c_str()); break;
            case 1: r.failed = !l->writef(l, "%s %ld", a.val.c_str(), a.num); break;
            case 2: r.failed = !l->duplicate(l, a.sub & 1 ? g_devnull : nullptr, a.newmem); break;
            case 3: l->flush(l); break;
            default: {
                // a rotation is due (as after rotateinterval seconds) and the name pattern now yields another path:
                // one that cannot be opened (log directory gone) or one that can
                l->rotateinterval = 3600; l->nextrotate = 1;
                std::string p = op == 4 ? std::string("/nonexistent-vf-dir/rot-%Y.log") : g_tmpdir + "/vf-rot-%Y.log";
                snprintf(l->filepathfmt, sizeof l->filepathfmt, "%s", p.c_str());
                r.failed = !l->write(l, a.val.c_str());
            }
        }
        return r;
    }
    std::string snapshot() { return ""; }
    const char *invariant() { return nullptr; }
    void destroy() { if (l) l->free(l); l = nullptr; }
};

Cont *make(int kind, Src &s) {
    switch (kind) {
        case 0: return new TreeC();
        case 1: { static const size_t rg[] = {1, 2, 5, 0}; return new HashC(rg[s.range(0, 3)]); }
        case 2: return new LtblC((int)s.range(0, 15) << 1);     // UNIQUE=2, CASEINSENSITIVE=4, INSERTTOP=8, LOOKUPFORWARD=16
        case 3: return new ListC(0);
        case 4: return new ListC(1);
        case 5: return new ListC(2);
        case 6: return new ListC(3);
        case 7: { static const int pol[] = {QVECTOR_RESIZE_EXACT, QVECTOR_RESIZE_LINEAR, QVECTOR_RESIZE_DOUBLE, 0}; return new VecC((size_t)s.range(1, 12), (size_t)s.range(0, 4), pol[s.range(0, 3)]); }
        case 8: return new HarrC((int)s.range(2, 8));
        default: return new LogC();
    }
}

Args gen_args(Src &s) {
    Args a;
    static const char *keys[] = {"a", "b", "c", "d", "e", "key", "Key", "zz", "m", "n1"};
    a.key = keys[s.range(0, 9)];
    size_t vl = s.pick({4, 2, 1}) == 0 ? (size_t)s.range(1, 6) : (size_t)s.range(7, 90);
    // values whose formatted form sits around the 1024 * 2^k sizes of the library's formatting buffer
    // (putstrf / addstrf then make extra allocations, each of which gets its turn to fail)
    if (s.chance(1, 8)) { static const size_t edge[] = {1024, 1024, 2048, 4096}; vl = edge[s.range(0, 3)] - 12 + (size_t)s.range(0, 16); }
    uint32_t x = (uint32_t)s.u8() + 7;
    for (size_t i = 0; i < vl; i++) { x = x * 1103515245u + 12345u; a.val.push_back((char)('a' + (x >> 16) % 26)); }
    a.idx = s.range(-4, 5); a.newmem = s.boolean(); a.sub = (int)s.range(0, 255); a.num = s.range(-1000000, 1000000);
    return a;
}

struct Step { int op; Args a; };

struct Trial {
    Ctx &c; bool m14;
    Trial(Ctx &c_) : c(c_), m14(c_.mode == "C14") {}

    // build a fresh container in the generated state; nullptr if construction is impossible
    Cont *build(int kind, Src cfg, bool ts, const std::vector<Step> &prefix) {
        Cont *ct = make(kind, cfg);
        if (!ct->create(ts)) { delete ct; c.fail(ATOM, "fault:ctor-null", "constructor returned NULL without an injected failure"); throw CaseStop{"constructor failed"}; }
        for (auto &st : prefix) {
            ct->run(st.op, st.a);
            if (m14 && ct->mutex() && g_depth[ct->mutex()] != 0) { std::string on = ct->ops()[(size_t)st.op]; for (auto &ch : on) if (ch == ' ' || ch == ',') ch = '_'; std::string kn = ct->kind(); long dep = g_depth[ct->mutex()]; g_depth[ct->mutex()] = 0; c.fail(LOCK, ("fault:lock-depth:" + kn + ":" + on).c_str(), "%s.%s (idx=%ld, key=%s) while building the state returned with the lock at depth %ld", kn.c_str(), on.c_str(), st.a.idx, st.a.key.c_str(), dep); }
        }
        return ct;
    }
};
}  // namespace

bool vf_configure(Ctx &c) {
    if (c.mode == "C14") { c.deciding = LOCK | CRASH | HANG; c.noteonly = MEM | LEAK | ATOM; }
    else if (c.mode == "C15") { c.deciding = ATOM | LEAK | CRASH | HANG | MEM; c.noteonly = 0; }
    else return false;
    g_devnull = fopen("/dev/null", "w");
    const char *td = getenv("TMPDIR");
    g_tmpdir = std::string(td ? td : "/dev/shm") + "/vf-fault-" + std::to_string(getpid());
    mkdir(g_tmpdir.c_str(), 0700);
    { FILE *f = fopen((g_tmpdir + "/load.txt").c_str(), "w"); if (f) { fputs("# saved\nk1=v%201\nk2=\nkey=abc\n", f); fclose(f); } }
    atexit([] { for (const char *f : {"/load.txt", "/save.txt", "/vf.log"}) unlink((g_tmpdir + f).c_str());
    { time_t now = time(nullptr); char nm[64]; strftime(nm, sizeof nm, "/vf-rot-%Y.log", localtime(&now)); unlink((g_tmpdir + nm).c_str()); } rmdir(g_tmpdir.c_str()); });
    return true;
}

void run_case(Src &s, Ctx &c) {
    Trial T(c);
    bool m14 = T.m14;
    int kind = m14 ? (int)s.pick({3, 2, 2, 2, 1, 1, 1, 3, 0, 1}) : (int)s.pick({4, 2, 3, 2, 1, 1, 1, 3, 2, 0});
    bool ts = m14 ? true : s.chance(1, 4);
    Src cfg = s;                                    // container configuration is re-decoded identically for every rebuild
    { Cont *tmp = make(kind, s); delete tmp; }      // consume the configuration choices
    Cont *probe_ct = make(kind, cfg); std::vector<const char *> opn_raw = probe_ct->ops();
    // operation names double as signature parts: no blanks
    static std::vector<std::string> opn_store; opn_store.clear(); for (auto n : opn_raw) { std::string x = n; for (auto &ch : x) if (ch == ' ' || ch == ',') ch = '_'; opn_store.push_back(x); }
    std::vector<const char *> opn; for (auto &x : opn_store) opn.push_back(x.c_str()); int nmut = probe_ct->nmutators(); std::string kname = probe_ct->kind(); delete probe_ct;
    // state prefix
    std::vector<Step> prefix;
    int plen = (int)s.range(0, 12);
    for (int i = 0; i < plen; i++) { Step st; st.op = (int)s.range(0, nmut - 1); if (s.chance(3, 4)) st.op = (int)s.range(0, 3) % nmut; st.a = gen_args(s); if (kname == "qlisttbl" && st.op == 8 && !s.chance(1, 4)) st.op = 0; prefix.push_back(st); }
    c.op("%s%s, state prefix of %d op(s); every op x every allocation index", kname.c_str(), ts ? " (THREADSAFE)" : "", plen);
    vf_hook_trylock = hook_trylock; vf_hook_unlock = hook_unlock; vf_hook_usleep = hook_usleep;
    g_depth.clear();
    vf_ledger_on = 1;
    long trials = 0, nt = 0, injected_total = 0, held_trials = 0;

    // ---- constructor under every allocation index
    {
        vf_ledger_reset(); arm_fail(0); vf_alloc_count = 0;
        Cont *c0 = make(kind, cfg); bool ok0 = c0->create(ts); long N = vf_alloc_count; if (ok0) c0->destroy(); delete c0;
        if (!ok0) c.fail(ATOM, "fault:ctor-null", "%s constructor returned NULL without an injected failure", kname.c_str());
        for (long k = 1; k <= N + 1; k++) {
            bool sticky = k == N + 1;
            vf_ledger_reset();
            Cont *ct = make(kind, cfg);
            c.op("ctor %s with allocation %ld%s failing", kname.c_str(), sticky ? 1 : k, sticky ? "+ (all)" : "");
            arm_fail(sticky ? 1 : k, sticky);
            bool ok = false;
            int sig = guarded([&] { ok = ct->create(ts); }, 5);
            long inj = vf_failed_count; disarm_fail();
            if (sig) { c.fail(CRASH, (std::string("fault:ctor-crash:") + kname).c_str(), "%s constructor crashed (signal %d) when allocation %ld%s failed", kname.c_str(), sig, sticky ? 1 : k, sticky ? " and all later ones" : ""); }
            trials++; injected_total += inj;
            if (ok) { if (m14 && ct->mutex() && g_depth[ct->mutex()] != 0) c.fail(LOCK, "fault:ctor-lock", "constructor left the lock at depth %ld", g_depth[ct->mutex()]); ct->destroy(); }
            delete ct;
            size_t live = vf_ledger_live();
            if (live) { char d[200]; vf_ledger_dump(d, sizeof d); c.fail(LEAK, (std::string("fault:ctor-leak:") + kname).c_str(), "%s constructor with allocation %ld%s failing (%s) leaked %zu block(s): %s", kname.c_str(), sticky ? 1 : k, sticky ? "+" : "", ok ? "succeeded" : "reported failure", live, d); }
            if (k >= 2) nt++;
        }
    }

    // ---- every operation x every allocation index
    // (the walk over the operations starts at a generated offset: when the choice bytes run out before the
    // end of the list, it is not always the same late operations that go untried)
    int op_start = (int)s.range(0, (long)opn.size() - 1);
    for (int opi = 0; opi < (int)opn.size() && !s.exhausted(); opi++) {
        int op = (op_start + opi) % (int)opn.size();
        int reps = op < nmut ? 2 : 1;
        for (int rep = 0; rep < reps; rep++) {
            Args a = gen_args(s);
            if (rep == 1) { a.key = prefix.empty() ? a.key : prefix[s.range(0, (long)prefix.size() - 1)].a.key; }   // aim at a present key
            // count the allocations of an undisturbed run
            vf_ledger_reset();
            Cont *t2 = T.build(kind, cfg, ts, prefix);
            struct D { Cont *&p; ~D() { if (p) { p->destroy(); delete p; p = nullptr; } } } d2{t2};
            std::string before = t2->snapshot();
            void *mx2 = t2->mutex();
            // C14, a third of the trials: the caller itself holds the container's lock around the call (the
            // documented way to make a compound operation atomic); the call must leave that depth alone
            bool held = m14 && mx2 && s.chance(1, 3) && t2->outer_lock();
            long depth0 = mx2 ? g_depth[mx2] : 0;
            arm_fail(0); vf_alloc_count = 0;
            Res r2;
            int sig0 = guarded([&] { r2 = t2->run(op, a); }, 5);
            long N = vf_alloc_count;
            if (sig0) c.fail(CRASH, (std::string("fault:crash:") + kname + ":" + opn[(size_t)op]).c_str(), "%s.%s crashed (signal %d) without any injected failure", kname.c_str(), opn[(size_t)op], sig0);
            c.op("%s.%s(key=%s,val=%zuB,idx=%ld,newmem=%d): %ld allocation(s), %s", kname.c_str(), opn[(size_t)op], a.key.c_str(), a.val.size(), a.idx, (int)a.newmem, N, r2.failed ? "reports failure/absence" : "ok");
            trials++;
            if (m14 && mx2) {
                long dep = g_depth[mx2];
                if (dep != depth0) c.fail(LOCK, (std::string("fault:lock-depth:") + kname + ":" + opn[(size_t)op]).c_str(), "%s.%s returned with the lock at depth %ld (entered at %ld%s); outcome: %s", kname.c_str(), opn[(size_t)op], dep, depth0, held ? ", the caller holding the lock" : "", r2.failed ? "error/absent" : "success");
                if (held) { t2->outer_unlock(); held_trials++; if (g_depth[mx2] != depth0 - 1) c.fail(LOCK, (std::string("fault:lock-depth:") + kname + ":" + opn[(size_t)op]).c_str(), "after %s.%s under the caller's lock and the caller's unlock the depth is %ld, expected %ld", kname.c_str(), opn[(size_t)op], g_depth[mx2], depth0 - 1); }
                int pr = probe(mx2);
                if (pr != 0) c.fail(LOCK, (std::string("fault:lock-held:") + kname + ":" + opn[(size_t)op]).c_str(), "after %s.%s returned another thread's trylock on the container mutex fails with %d", kname.c_str(), opn[(size_t)op], pr);
                if (r2.failed) nt++;
            }
            std::string after2 = t2->snapshot();
            // ---- inject
            for (long k = 1; k <= N + (N > 0 ? 1 : 0); k++) try {
                bool sticky = k == N + 1;
                long kk = sticky ? 1 : k;
                size_t live0 = vf_ledger_live();            // the undisturbed twin is still alive
                int fds0 = kname == "qlog" ? -1 : count_fds();
                Cont *t1 = T.build(kind, cfg, ts, prefix);
                D d1{t1};
                void *mx = t1->mutex();
                bool held1 = held && mx && t1->outer_lock();
                long dep0 = mx ? g_depth[mx] : 0;
                Res r1;
                arm_fail(kk, sticky);
                int sig = guarded([&] { r1 = t1->run(op, a); }, 5);
                long inj = vf_failed_count; disarm_fail();
                trials++; injected_total += inj;
                const char *fdesc = sticky ? "every allocation" : "one allocation";
                if (sig) { t1 = nullptr; c.fail(CRASH, (std::string("fault:crash:") + kname + ":" + opn[(size_t)op]).c_str(), "%s.%s crashed (signal %d) when allocation %ld%s of %ld failed (key=%s idx=%ld newmem=%d, state of %d ops)", kname.c_str(), opn[(size_t)op], sig, kk, sticky ? "+" : "", N, a.key.c_str(), a.idx, (int)a.newmem, plen); }
                if (inj == 0) { if (held1) t1->outer_unlock(); continue; }
                if (m14) {
                    if (mx) {
                        long dep = g_depth[mx];
                        if (dep != dep0) c.fail(LOCK, (std::string("fault:lock-depth:") + kname + ":" + opn[(size_t)op]).c_str(), "%s.%s returned with the lock at depth %ld (entered at %ld%s) after allocation %ld%s of %ld failed", kname.c_str(), opn[(size_t)op], dep, dep0, held1 ? ", the caller holding the lock" : "", kk, sticky ? "+" : "", N);
                        if (held1) t1->outer_unlock();
                        int pr = probe(mx);
                        if (pr != 0) c.fail(LOCK, (std::string("fault:lock-held:") + kname + ":" + opn[(size_t)op]).c_str(), "after %s.%s returned (allocation %ld%s failed) another thread's trylock fails with %d", kname.c_str(), opn[(size_t)op], kk, sticky ? "+" : "", pr);
                    }
                    nt++;
                    // a failed allocation may have damaged the object (C15's business): do not reuse, and tolerate a crash in its release
                    Cont *dead = t1; t1 = nullptr; int sg = guarded([&] { dead->destroy(); }, 5); (void)sg; delete dead;
                    continue;
                }
                // ---- C15 verdicts
                if (k >= 2 || kname == "qtreetbl") nt++;
                const char *inv = t1->invariant();
                if (inv) c.fail(ATOM, (std::string("fault:invariant:") + kname + ":" + opn[(size_t)op]).c_str(), "%s.%s with %s failing (#%ld of %ld): %s", kname.c_str(), opn[(size_t)op], fdesc, kk, N, inv);
                std::string after = t1->snapshot();
                if (r1.failed) {
                    if (after != before && kname != "qlog") c.fail(ATOM, (std::string("fault:not-atomic:") + kname + ":" + opn[(size_t)op]).c_str(), "%s.%s reported failure (allocation %ld%s of %ld failed) but the container changed: before {%s} after {%s}", kname.c_str(), opn[(size_t)op], kk, sticky ? "+" : "", N, hexs(before, 120).c_str(), hexs(after, 120).c_str());
                } else {
                    if (after != after2 || r1.obs != r2.obs) c.fail(ATOM, (std::string("fault:silent-wrong:") + kname + ":" + opn[(size_t)op]).c_str(), "%s.%s reported success although allocation %ld%s of %ld failed, but its result/state differs from an undisturbed run: result {%s} vs {%s}, state {%s} vs {%s}", kname.c_str(), opn[(size_t)op], kk, sticky ? "+" : "", N, hexs(r1.obs, 60).c_str(), hexs(r2.obs, 60).c_str(), hexs(after, 100).c_str(), hexs(after2, 100).c_str());
                }
                // later operations behave normally: a short suffix on t1 and on an undisturbed reference
                {
                    Cont *ref = T.build(kind, cfg, ts, prefix);
                    D dr{ref};
                    if (!r1.failed) ref->run(op, a);
                    Src sfx = s;
                    for (int j = 0; j < 4; j++) {
                        int o2 = (int)sfx.range(0, (long)opn.size() - 1); Args a2 = gen_args(sfx);
                        if (kname == "qlisttbl" && (o2 == 8 || o2 == 17)) continue;
                        Res x1, x2;
                        // the failed call left ENOMEM in errno; later calls must not be confused by it
                        int sg = guarded([&] { errno = ENOMEM; x1 = t1->run(o2, a2); }, 5);
                        if (sg) { t1 = nullptr; c.fail(CRASH, (std::string("fault:crash-later:") + kname + ":" + opn[(size_t)op]).c_str(), "%s.%s crashed (signal %d) when run after %s.%s had an allocation failure", kname.c_str(), opn[(size_t)o2], sg, kname.c_str(), opn[(size_t)op]); }
                        errno = 0; x2 = ref->run(o2, a2);
                        if (x1.failed != x2.failed || x1.obs != x2.obs || t1->snapshot() != ref->snapshot()) c.fail(ATOM, (std::string("fault:later-ops-differ:") + kname + ":" + opn[(size_t)op]).c_str(), "after %s.%s had allocation %ld%s fail (%s), a later %s behaves differently from an undisturbed container", kname.c_str(), opn[(size_t)op], kk, sticky ? "+" : "", r1.failed ? "reported" : "survived", opn[(size_t)o2]);
                    }
                }
                c.check_san(opn[(size_t)op]);
                // release the faulted container: everything it allocated must be gone
                { Cont *dead = t1; t1 = nullptr; int sg = guarded([&] { dead->destroy(); }, 5); delete dead;
                  if (sg) c.fail(CRASH, (std::string("fault:crash-free:") + kname + ":" + opn[(size_t)op]).c_str(), "releasing the container crashed (signal %d) after %s.%s had an allocation failure", sg, kname.c_str(), opn[(size_t)op]); }
                size_t live1 = vf_ledger_live();
                if (fds0 >= 0) { int fds1 = count_fds(); if (fds1 > fds0) { std::string w; count_fds(&w); c.fail(LEAK, (std::string("fault:fd-leak:") + kname + ":" + opn[(size_t)op]).c_str(), "%s.%s with allocation %ld%s of %ld failing (%s): %d file descriptor(s) more are open after the call and the release of the container (open now: %s)", kname.c_str(), opn[(size_t)op], kk, sticky ? "+" : "", N, fdesc, fds1 - fds0, w.c_str()); } }
                if (live1 > live0) { char dmp[200]; vf_ledger_dump(dmp, sizeof dmp); c.fail(LEAK, (std::string("fault:leak:") + kname + ":" + opn[(size_t)op]).c_str(), "%s.%s with allocation %ld%s of %ld failing (%s): %zu block(s) still allocated after the container was released", kname.c_str(), opn[(size_t)op], kk, sticky ? "+" : "", N, r1.failed ? "reported" : "survived", live1 - live0); }
            } catch (CaseFail &f) {
                // a listed known finding: count it and keep exploring the remaining trials of this case
                if (!is_excluded(f.sig)) throw;
                count_excluded(f.sig); disarm_fail();
            }
            // release everything of this op and look at the ledger
            if (!m14) {
                if (t2) { t2->destroy(); delete t2; t2 = nullptr; }
            }
        }
    }
    // nothing may stay allocated once every container of the case has been released
    vf_hook_trylock = nullptr; vf_hook_unlock = nullptr; vf_hook_usleep = nullptr;
    c.tag(("kind_" + kname).c_str()); c.tag("trials", (uint64_t)trials); c.tag("injected_failures", (uint64_t)injected_total); if (held_trials) c.tag("trials_under_the_callers_own_lock", (uint64_t)held_trials);
    c.nontrivial = nt > 0;
    c.extra_hash = (uint64_t)kind;
}
