// h_conc.cpp - thread-safe option => linearizable.  Mode C13.
// Small concurrent programs run under a harness-owned schedule: worker threads are real
// pthreads but only the holder of the baton runs; yield points are operation start/end and the
// three symbols Q_MUTEX_ENTER/LEAVE are made of (wrapped pthread_mutex_trylock, wrapped
// pthread_mutex_unlock, wrapped usleep).  A run is a deterministic function of (program,
// schedule).  The observed history (invocation/response order, results, final contents) must
// be explained by some sequential order of the calls consistent with real time.
#include "common/vf.hpp"
#include <cerrno>
#include <pthread.h>
#include <semaphore.h>
#include <atomic>
#include <ctime>
#include <unistd.h>
#include <algorithm>
extern "C" {
#include "qlibc.h"
}
#include "common/via_members.hpp"   // after the prototypes: container calls go through the member pointers in half of the cases
using namespace vf;
const char *vf_harness_name = "conc";

namespace {
// ------------------------------------------------------------------ program
enum Kind { K_VECTOR = 0, K_LIST, K_TREE, K_HASH, K_LTBL, K_NKIND };
const char *kname(int k) { static const char *n[] = {"qvector", "qlist", "qtreetbl", "qhashtbl", "qlisttbl"}; return n[k]; }
struct Op { int code; std::string key, val; };
struct Prog { int kind; std::vector<std::string> init; std::vector<std::vector<Op>> thr; bool unique = false; size_t limit = 0; int wrap = 0; size_t hrange = 3; };   // hrange (K_HASH only): table range; wrap (K_LIST only): 0 qlist, 1 qqueue, 2 qstack - elements are int64 numbers there

const char *kname(const Prog &p) { return p.kind == K_LIST && p.wrap == 1 ? "qqueue" : p.kind == K_LIST && p.wrap == 2 ? "qstack" : kname(p.kind); }
const char *opname(int kind, int code) {
    static const char *seq[] = {"addlast", "addfirst", "popfirst", "poplast", "getfirst(copy)", "clear", "toarray", "removefirst", "addat(1)", "getlast(copy)", "tostring", "unlocked copying walk", "getat(1,copy)", "popat(1)", "removeat(1)", "popint", "getint"};
    static const char *map[] = {"put", "get(copy)", "remove", "clear", "lock+walk+unlock", "unlocked copying walk", "getint", "putint", "get(size,copy)"};
    return kind <= K_LIST ? seq[code] : map[code];
}
std::string opstr(int kind, const Op &o) { std::string s = opname(kind, o.code); if (kind <= K_LIST) { if (o.code == 0 || o.code == 1 || o.code == 8) s += "(" + o.val + ")"; } else if (o.code <= 2 || o.code >= 6) { s += "(" + o.key + (o.code == 0 || o.code == 7 ? "," + o.val : "") + ")"; } return s; }

// ------------------------------------------------------------------ sequential model
struct Model {
    int kind; bool unique = false; size_t limit = 0;      // limit: qlist setsize()
    int wrap = 0;                                          // 2 = stack: push goes to the front
    std::vector<std::string> seq;                       // vector / list
    std::vector<std::pair<std::string, std::string>> kv; // listtbl order; tree/hash as set
    std::string apply(const Op &o) {
        if (kind <= K_LIST) {
            switch (o.code == 0 && wrap == 2 ? 1 : o.code) {
                case 15: { if (seq.empty()) return "0"; std::string r = seq.front(); seq.erase(seq.begin()); return r; }
                case 16: return seq.empty() ? "0" : seq.front();
                case 0: if (limit && seq.size() >= limit) return "F"; seq.push_back(o.val); return "T";
                case 1: if (limit && seq.size() >= limit) return "F"; seq.insert(seq.begin(), o.val); return "T";
                case 2: { if (seq.empty()) return "NULL"; std::string r = seq.front(); seq.erase(seq.begin()); return r; }
                case 3: { if (seq.empty()) return "NULL"; std::string r = seq.back(); seq.pop_back(); return r; }
                case 4: return seq.empty() ? "NULL" : seq.front();
                case 5: seq.clear(); return "";
                case 6: { if (seq.empty()) return "NULL"; std::string r; for (auto &e : seq) r += e; return r; }
                case 7: { if (seq.empty()) return "F"; seq.erase(seq.begin()); return "T"; }
                case 8: { if (limit && seq.size() >= limit) return "F"; if (seq.size() < 1) return "F"; seq.insert(seq.begin() + 1, o.val); return "T"; }
                case 9: return seq.empty() ? "NULL" : seq.back();
                case 11: return "";        // unlocked walk: every step is atomic on its own, the whole is not a snapshot: result not asserted
                case 12: return seq.size() < 2 ? "NULL" : seq[1];
                case 13: { if (seq.size() < 2) return "NULL"; std::string r = seq[1]; seq.erase(seq.begin() + 1); return r; }
                case 14: { if (seq.size() < 2) return "F"; seq.erase(seq.begin() + 1); return "T"; }
                default: { if (seq.empty()) return "NULL"; std::string r; for (auto &e : seq) r += e; return r; }
            }
        }
        auto find = [&](const std::string &k) { for (size_t i = kv.size(); i-- > 0;) if (kv[i].first == k) return (long)i; return -1L; };
        switch (o.code) {
            case 0: case 7: { if (kind == K_LTBL) { if (unique) for (size_t i = 0; i < kv.size();) { if (kv[i].first == o.key) kv.erase(kv.begin() + (long)i); else i++; } kv.push_back({o.key, o.val}); return "T"; } long i = find(o.key); if (i >= 0) kv[(size_t)i].second = o.val; else kv.push_back({o.key, o.val}); return "T"; }
            case 1: case 8: { long i = find(o.key); return i < 0 ? "NULL" : kv[(size_t)i].second; }
            case 6: { long i = find(o.key); return std::to_string(i < 0 ? 0LL : atoll(kv[(size_t)i].second.c_str())); }
            case 2: { size_t n = 0; for (size_t i = 0; i < kv.size();) if (kv[i].first == o.key) { kv.erase(kv.begin() + (long)i); n++; } else i++; return kind == K_LTBL ? std::to_string(n) : (n ? "T" : "F"); }
            case 3: kv.clear(); return "";
            case 5: return "";             // unlocked copying walk: result not asserted (see above)
            default: return contents();
        }
    }
    std::string contents() const {
        if (kind <= K_LIST) { std::string r; for (auto &e : seq) r += e + ";"; return r; }
        std::vector<std::string> v; for (auto &p : kv) v.push_back(p.first + "=" + p.second);
        if (kind != K_LTBL) std::sort(v.begin(), v.end());
        std::string r; for (auto &e : v) r += e + ";"; return r;
    }
};

// ------------------------------------------------------------------ scheduler
const int MAXT = 3;
struct Sched {
    int n = 0;
    sem_t sem[MAXT]; sem_t done;
    enum St { RUN, WAITM, FIN } st[MAXT];
    void *waitm[MAXT];
    int cur = -1;
    bool active = false, leak = false, freerun = false, leak_at_exit = false;
    int depth[MAXT] = {0};                       // mutex acquisitions minus releases per thread
    // choices
    std::vector<int> forced;             // DFS prefix (empty in random mode)
    Src *rnd = nullptr; int preempt_num = 1, preempt_den = 3;
    std::vector<std::pair<int, int>> decisions;   // (choice, ncand) per branching decision
    std::vector<bool> cur_runnable_at;            // whether choice 0 meant "stay" at that decision
    int preemptions = 0, preempt_in_op = 0;
    long burst[MAXT]; int bursts_used = 0, max_bursts = 1;      // starvation: waiter spins > MAX_MUTEX_LOCK_WAIT rounds ("force to unlock" path)
    long clock = 0;
    bool in_op[MAXT];
} S;
thread_local int t_id = -1;

int choose(const std::vector<int> &cand, bool cur_runnable) {
    if (cand.size() == 1) return cand[0];
    size_t di = S.decisions.size();
    int ch;
    if (di < S.forced.size()) ch = S.forced[di];
    else if (S.rnd) { if (cur_runnable) ch = S.rnd->chance(S.preempt_num, S.preempt_den) ? (int)S.rnd->range(1, (long)cand.size() - 1) : 0; else ch = (int)S.rnd->range(0, (long)cand.size() - 1); }
    else ch = 0;
    if (ch >= (int)cand.size()) ch = (int)cand.size() - 1;
    S.decisions.push_back({ch, (int)cand.size()}); S.cur_runnable_at.push_back(cur_runnable);
    if (cur_runnable && ch > 0) { S.preemptions++; if (t_id >= 0 && S.in_op[t_id]) S.preempt_in_op++; }
    return cand[(size_t)ch];
}
// hand the baton on; the caller (current thread) blocks until it is scheduled again
void reschedule(bool self_finished) {
    int me = t_id;
    std::vector<int> cand;
    bool me_run = !self_finished && S.st[me] == Sched::RUN;
    if (me_run) cand.push_back(me);
    for (int i = 0; i < S.n; i++) if (i != me && S.st[i] == Sched::RUN) cand.push_back(i);
    if (cand.empty()) {
        bool waiting = false; for (int i = 0; i < S.n; i++) if (S.st[i] == Sched::WAITM) waiting = true;
        if (waiting) {   // nobody can run but somebody waits for a mutex: the lock was leaked
            S.leak = true; S.freerun = true;
            for (int i = 0; i < S.n; i++) if (S.st[i] == Sched::WAITM) { S.st[i] = Sched::RUN; sem_post(&S.sem[i]); }
            if (!self_finished) { /* cannot happen: caller would be runnable */ }
            return;
        }
        sem_post(&S.done);
        return;
    }
    int nx = choose(cand, me_run);
    if (nx == me) return;
    S.cur = nx;
    sem_post(&S.sem[nx]);
    if (!self_finished) sem_wait(&S.sem[me]);
}
void yield_point() { if (!S.active || t_id < 0 || S.freerun) return; reschedule(false); }

// a two-way decision that is part of the schedule (recorded like a thread choice, not a preemption)
int decide2(int prob_num, int prob_den) {
    size_t di = S.decisions.size();
    int ch;
    if (di < S.forced.size()) ch = S.forced[di];
    else if (S.rnd) ch = S.rnd->chance(prob_num, prob_den) ? 1 : 0;
    else ch = 0;
    if (ch > 1) ch = 1;
    S.decisions.push_back({ch, 2}); S.cur_runnable_at.push_back(false);
    return ch;
}
int hook_trylock(void *m, int (*real)(void *)) {
    if (!S.active || t_id < 0) return real(m);
    if (S.burst[t_id] > 0) { int r = real(m); if (r != 0) S.waitm[t_id] = m; else { S.burst[t_id] = 0; S.depth[t_id]++; } return r; }   // spinning: no other thread gets to run
    yield_point();
    int r = real(m);
    if (r != 0) S.waitm[t_id] = m; else S.depth[t_id]++;
    return r;
}
int hook_unlock(void *m, int (*real)(void *)) {
    if (!S.active || t_id < 0) return real(m);
    int r = real(m);
    if (r != 0) return r;                      // e.g. the "force to unlock" attempt of a thread that does not own the mutex
    S.depth[t_id]--;
    for (int i = 0; i < S.n; i++) if (S.st[i] == Sched::WAITM && S.waitm[i] == m) S.st[i] = Sched::RUN;
    yield_point();
    return r;
}
int hook_usleep(unsigned) {
    if (S.active && t_id >= 0 && S.leak) {
        // the lock was leaked by a thread that is gone: this thread would spin in Q_MUTEX_ENTER for
        // ever (a recursive mutex cannot be force-unlocked by a non-owner).  The verdict is already
        // recorded; end the thread so that the run can be wrapped up.
        S.st[t_id] = Sched::FIN;
        bool all = true; for (int i = 0; i < S.n; i++) if (S.st[i] != Sched::FIN) all = false;
        if (all) sem_post(&S.done);
        pthread_exit(nullptr);
    }
    if (!S.active || t_id < 0 || S.freerun) return 0;
    if (S.burst[t_id] > 0) { S.burst[t_id]--; return 0; }
    // the trylock just failed: either the owner is starved long enough for this thread to run
    // into the library's lock-wait timeout (one burst per run), or this thread sleeps until the
    // mutex is released
    if (S.bursts_used < S.max_bursts && decide2(1, 5)) { S.bursts_used++; S.burst[t_id] = 5200; return 0; }
    S.st[t_id] = Sched::WAITM;
    reschedule(false);
    return 0;
}

// ------------------------------------------------------------------ execution
struct Obs { int thr, idx; long inv, resp; std::string res; };
struct Exec {
    const Prog *p; void *cont = nullptr;
    std::vector<Obs> hist;
    std::string final_contents;
};
Exec *g_ex = nullptr;

std::string pad4(const std::string &v) { std::string e = v; e.resize(4, '.'); return e; }
// list elements come in two sizes (4 and 12 bytes, by the parity of the value's last digit), so that the
// number of elements and their total size can move independently
std::string padL(const std::string &v) { std::string e = v; bool big = !v.empty() && ((v.back() - '0') & 1); e.resize(big ? 12 : 4, '.'); return e; }
std::string padK(int kind, const std::string &v) { return kind == K_LIST ? padL(v) : pad4(v); }

std::string do_op(const Prog &p, void *c, const Op &o) {
    void *r; size_t n = 0;
    switch (p.kind) {
        case K_VECTOR: { qvector_t *v = (qvector_t *)c; std::string e = pad4(o.val);
            switch (o.code) {
                case 0: return qvector_addlast(v, e.data()) ? "T" : "F";
                case 1: return qvector_addfirst(v, e.data()) ? "T" : "F";
                case 2: r = qvector_popfirst(v); break;
                case 3: r = qvector_poplast(v); break;
                case 4: r = qvector_getfirst(v, true); break;
                case 5: qvector_clear(v); return "";
                case 6: { r = qvector_toarray(v, &n); if (!r) return "NULL"; std::string s((char *)r, n * 4); free(r); return s; }
                case 7: return qvector_removefirst(v) ? "T" : "F";
                case 8: return qvector_addat(v, 1, e.data()) ? "T" : "F";
                case 11: { qvector_obj_t ob; memset(&ob, 0, sizeof ob); size_t g = 0; while (qvector_getnext(v, &ob, true) && g++ < 100) free(ob.data); return ""; }
                case 12: r = qvector_getat(v, 1, true); break;
                case 13: r = qvector_popat(v, 1); break;
                case 14: return qvector_removeat(v, 1) ? "T" : "F";
                default: r = qvector_getlast(v, true);
            }
            if (!r) return "NULL"; std::string s((char *)r, 4); free(r); return s; }
        case K_LIST: if (p.wrap) {
            // queue / stack: elements are int64 numbers (pushint), raw results are printed as numbers
            auto num = [](void *r, size_t n) { if (!r) return std::string("NULL"); std::string s = n == sizeof(int64_t) ? std::to_string((long long)*(int64_t *)r) : "<" + std::to_string(n) + " bytes>"; free(r); return s; };
            int64_t v = atoll(o.val.c_str());
            if (p.wrap == 1) { qqueue_t *q = (qqueue_t *)c;
                switch (o.code) {
                    case 0: return qqueue_pushint(q, v) ? "T" : "F";
                    case 2: r = qqueue_pop(q, &n); return num(r, n);
                    case 4: r = qqueue_get(q, &n, true); return num(r, n);
                    case 5: qqueue_clear(q); return "";
                    case 12: r = qqueue_getat(q, 1, &n, true); return num(r, n);
                    case 13: r = qqueue_popat(q, 1, &n); return num(r, n);
                    case 15: return std::to_string((long long)qqueue_popint(q));
                    default: return std::to_string((long long)qqueue_getint(q));
                } }
            qstack_t *q = (qstack_t *)c;
            switch (o.code) {
                case 0: return qstack_pushint(q, v) ? "T" : "F";
                case 2: r = qstack_pop(q, &n); return num(r, n);
                case 4: r = qstack_get(q, &n, true); return num(r, n);
                case 5: qstack_clear(q); return "";
                case 12: r = qstack_getat(q, 1, &n, true); return num(r, n);
                case 13: r = qstack_popat(q, 1, &n); return num(r, n);
                case 15: return std::to_string((long long)qstack_popint(q));
                default: return std::to_string((long long)qstack_getint(q));
            } }
            { qlist_t *l = (qlist_t *)c; std::string e = padL(o.val);
            switch (o.code) {
                case 0: return qlist_addlast(l, e.data(), e.size()) ? "T" : "F";
                case 1: return qlist_addfirst(l, e.data(), e.size()) ? "T" : "F";
                case 2: r = qlist_popfirst(l, &n); break;
                case 3: r = qlist_poplast(l, &n); break;
                case 4: r = qlist_getfirst(l, &n, true); break;
                case 5: qlist_clear(l); return "";
                case 6: { r = qlist_toarray(l, &n); if (!r) return "NULL"; std::string s((char *)r, n); free(r); return s; }
                case 7: return qlist_removefirst(l) ? "T" : "F";
                case 8: return qlist_addat(l, 1, e.data(), e.size()) ? "T" : "F";
                case 9: r = qlist_getlast(l, &n, true); break;
                case 11: { qlist_obj_t ob; memset(&ob, 0, sizeof ob); size_t g = 0; while (qlist_getnext(l, &ob, true) && g++ < 100) free(ob.data); return ""; }
                case 12: r = qlist_getat(l, 1, &n, true); break;
                case 13: r = qlist_popat(l, 1, &n); break;
                case 14: return qlist_removeat(l, 1) ? "T" : "F";
                default: { char *s = qlist_tostring(l); if (!s) return "NULL"; std::string x = s; free(s); return x; }
            }
            if (!r) return "NULL"; std::string s((char *)r, n); free(r); return s; }
        case K_TREE: { qtreetbl_t *t = (qtreetbl_t *)c;
            switch (o.code) {
                case 0: return qtreetbl_putstr(t, o.key.c_str(), o.val.c_str()) ? "T" : "F";
                case 1: { char *s = qtreetbl_getstr(t, o.key.c_str(), true); if (!s) return "NULL"; std::string x = s; free(s); return x; }
                case 2: return qtreetbl_remove(t, o.key.c_str()) ? "T" : "F";
                case 3: qtreetbl_clear(t); return "";
                case 5: return "";      // qtreetbl_getnext takes no lock by itself (documented: lock() around the walk): nothing to run unlocked
                case 8: { size_t sz = 0; char *s = (char *)qtreetbl_get(t, o.key.c_str(), &sz, true); if (!s) return "NULL"; std::string x(s, sz ? sz - 1 : 0); free(s); return x; }
                default: { std::string x; qtreetbl_obj_t ob; memset(&ob, 0, sizeof ob); qtreetbl_lock(t); size_t g = 0; while (qtreetbl_getnext(t, &ob, false) && g++ < 100) { x += std::string((char *)ob.name) + "=" + std::string((char *)ob.data) + ";"; } qtreetbl_unlock(t); return x; }
            } }
        case K_HASH: { qhashtbl_t *t = (qhashtbl_t *)c;
            switch (o.code) {
                case 0: return qhashtbl_putstr(t, o.key.c_str(), o.val.c_str()) ? "T" : "F";
                case 1: { char *s = qhashtbl_getstr(t, o.key.c_str(), true); if (!s) return "NULL"; std::string x = s; free(s); return x; }
                case 2: return qhashtbl_remove(t, o.key.c_str()) ? "T" : "F";
                case 3: qhashtbl_clear(t); return "";
                case 5: { qhashtbl_obj_t ob; memset(&ob, 0, sizeof ob); size_t g = 0; while (qhashtbl_getnext(t, &ob, true) && g++ < 100) { volatile size_t l = strlen(ob.name) + ob.size; (void)l; free(ob.name); free(ob.data); } return ""; }
                case 6: return std::to_string((long long)qhashtbl_getint(t, o.key.c_str()));
                case 7: return qhashtbl_putint(t, o.key.c_str(), atoll(o.val.c_str())) ? "T" : "F";
                case 8: { size_t sz = 0; char *s = (char *)qhashtbl_get(t, o.key.c_str(), &sz, true); if (!s) return "NULL"; std::string x(s, sz ? sz - 1 : 0); free(s); return x; }
                default: { std::vector<std::string> v; qhashtbl_obj_t ob; memset(&ob, 0, sizeof ob); qhashtbl_lock(t); size_t g = 0; while (qhashtbl_getnext(t, &ob, false) && g++ < 100) v.push_back(std::string(ob.name) + "=" + std::string((char *)ob.data)); qhashtbl_unlock(t); std::sort(v.begin(), v.end()); std::string x; for (auto &e : v) x += e + ";"; return x; }
            } }
        default: { qlisttbl_t *t = (qlisttbl_t *)c;
            switch (o.code) {
                case 0: return qlisttbl_putstr(t, o.key.c_str(), o.val.c_str()) ? "T" : "F";
                case 1: { char *s = qlisttbl_getstr(t, o.key.c_str(), true); if (!s) return "NULL"; std::string x = s; free(s); return x; }
                case 2: return std::to_string(qlisttbl_remove(t, o.key.c_str()));
                case 3: qlisttbl_clear(t); return "";
                case 5: { qlisttbl_obj_t ob; memset(&ob, 0, sizeof ob); size_t g = 0; while (qlisttbl_getnext(t, &ob, nullptr, true) && g++ < 100) { volatile size_t l = strlen(ob.name) + ob.size; (void)l; free(ob.name); free(ob.data); } return ""; }
                case 6: return std::to_string((long long)qlisttbl_getint(t, o.key.c_str()));
                case 7: return qlisttbl_putint(t, o.key.c_str(), atoll(o.val.c_str())) ? "T" : "F";
                case 8: { size_t sz = 0; char *s = (char *)qlisttbl_get(t, o.key.c_str(), &sz, true); if (!s) return "NULL"; std::string x(s, sz ? sz - 1 : 0); free(s); return x; }
                default: { std::string x; qlisttbl_obj_t ob; memset(&ob, 0, sizeof ob); qlisttbl_lock(t); size_t g = 0; bool fwd = t->lookupforward; std::vector<std::string> v; while (qlisttbl_getnext(t, &ob, nullptr, false) && g++ < 100) v.push_back(std::string(ob.name) + "=" + std::string((char *)ob.data)); qlisttbl_unlock(t); if (!fwd) std::reverse(v.begin(), v.end()); for (auto &e : v) x += e + ";"; return x; }
            } }
    }
}
std::string contents_of(const Prog &p, void *c) {
    std::string r;
    switch (p.kind) {
        case K_VECTOR: { qvector_t *v = (qvector_t *)c; size_t n = v->num > 64 ? 64 : v->num; if (v->num > v->max) return "<num " + std::to_string(v->num) + " exceeds capacity " + std::to_string(v->max) + ">"; for (size_t i = 0; i < n; i++) r += std::string((char *)v->data + i * 4, 4) + ";"; return r; }
        case K_LIST: { qlist_t *l = p.wrap == 1 ? ((qqueue_t *)c)->list : p.wrap == 2 ? ((qstack_t *)c)->list : (qlist_t *)c; size_t g = 0;
            if (p.wrap) { for (qlist_obj_t *o = l->first; o && g++ < 64; o = o->next) r += (o->size == sizeof(int64_t) ? std::to_string((long long)*(int64_t *)o->data) : "<" + std::to_string(o->size) + " bytes>") + ";"; if (g != l->num) r += "<num=" + std::to_string(l->num) + ">"; return r; }
            for (qlist_obj_t *o = l->first; o && g++ < 64; o = o->next) r += std::string((char *)o->data, o->size) + ";"; if (g != l->num) r += "<num=" + std::to_string(l->num) + ">"; return r; }
        case K_TREE: { qtreetbl_t *t = (qtreetbl_t *)c; std::vector<std::string> v; qtreetbl_obj_t ob; memset(&ob, 0, sizeof ob); size_t g = 0; while (qtreetbl_getnext(t, &ob, false) && g++ < 100) v.push_back(std::string((char *)ob.name) + "=" + std::string((char *)ob.data)); std::sort(v.begin(), v.end()); for (auto &e : v) r += e + ";"; if (g != t->num) r += "<num=" + std::to_string(t->num) + ">"; return r; }
        case K_HASH: { qhashtbl_t *t = (qhashtbl_t *)c; std::vector<std::string> v; qhashtbl_obj_t ob; memset(&ob, 0, sizeof ob); size_t g = 0; while (qhashtbl_getnext(t, &ob, false) && g++ < 100) v.push_back(std::string(ob.name) + "=" + std::string((char *)ob.data)); std::sort(v.begin(), v.end()); for (auto &e : v) r += e + ";"; if (g != t->num) r += "<num=" + std::to_string(t->num) + ">"; return r; }
        default: { qlisttbl_t *t = (qlisttbl_t *)c; size_t g = 0; for (qlisttbl_obj_t *o = t->first; o && g++ < 100; o = o->next) r += std::string(o->name) + "=" + std::string((char *)o->data) + ";"; if (g != t->num) r += "<num=" + std::to_string(t->num) + ">"; return r; }
    }
}
void *create(const Prog &p) {
    switch (p.kind) {
        case K_VECTOR: return qvector(2, 4, QVECTOR_THREADSAFE | QVECTOR_RESIZE_EXACT);
        case K_LIST: {
            if (p.wrap == 1) { qqueue_t *q = qqueue(QQUEUE_THREADSAFE); if (q && p.limit) qqueue_setsize(q, p.limit); return q; }
            if (p.wrap == 2) { qstack_t *q = qstack(QSTACK_THREADSAFE); if (q && p.limit) qstack_setsize(q, p.limit); return q; }
            qlist_t *l = qlist(QLIST_THREADSAFE); if (l && p.limit) qlist_setsize(l, p.limit); return l; }
        case K_TREE: return qtreetbl(QTREETBL_THREADSAFE);
        case K_HASH: return qhashtbl(p.hrange, QHASHTBL_THREADSAFE);
        default: return qlisttbl(QLISTTBL_THREADSAFE | (p.unique ? QLISTTBL_UNIQUE : 0));
    }
}
void destroy(const Prog &p, void *c) {
    switch (p.kind) { case K_VECTOR: qvector_free((qvector_t *)c); break; case K_LIST: if (p.wrap == 1) qqueue_free((qqueue_t *)c); else if (p.wrap == 2) qstack_free((qstack_t *)c); else qlist_free((qlist_t *)c); break; case K_TREE: qtreetbl_free((qtreetbl_t *)c); break; case K_HASH: qhashtbl_free((qhashtbl_t *)c); break; default: qlisttbl_free((qlisttbl_t *)c); }
}

void *worker(void *arg) {
    int id = (int)(intptr_t)arg;
    t_id = id;
    sem_wait(&S.sem[id]);
    const Prog &p = *g_ex->p;
    for (size_t i = 0; i < p.thr[(size_t)id].size(); i++) {
        yield_point();                                   // operation start
        Obs ob; ob.thr = id; ob.idx = (int)i; ob.inv = ++S.clock;
        S.in_op[id] = true;
        ob.res = do_op(p, g_ex->cont, p.thr[(size_t)id][i]);
        S.in_op[id] = false;
        ob.resp = ++S.clock;
        { static std::atomic_flag lk = ATOMIC_FLAG_INIT; while (lk.test_and_set(std::memory_order_acquire)) {} g_ex->hist.push_back(ob); lk.clear(std::memory_order_release); }   // (only contended after a detected lock leak, when threads run free)
        yield_point();                                   // operation end
    }
    S.st[id] = Sched::FIN;
    if (!S.freerun) reschedule(true);
    else { bool all = true; for (int i = 0; i < S.n; i++) if (S.st[i] != Sched::FIN) all = false; if (all) sem_post(&S.done); }
    return nullptr;
}

// run the program once under the schedule currently configured in S (forced / rnd)
void execute(const Prog &p, Exec &ex) {
    ex.p = &p; ex.hist.clear();
    ex.cont = create(p);
    if (!ex.cont) throw CaseStop{"constructor failed"};
    // initial elements, sequentially
    { Model m; m.kind = p.kind; for (size_t i = 0; i < p.init.size(); i++) { Op o; o.code = 0; o.key = "k" + std::to_string(i); o.val = p.init[i]; do_op(p, ex.cont, o); } }
    S.n = (int)p.thr.size(); S.decisions.clear(); S.cur_runnable_at.clear(); S.preemptions = 0; S.preempt_in_op = 0; S.clock = 0; S.leak = false; S.freerun = false; S.leak_at_exit = false;
    S.bursts_used = 0; for (int i = 0; i < MAXT; i++) { S.burst[i] = 0; S.depth[i] = 0; }
    sem_init(&S.done, 0, 0);
    for (int i = 0; i < S.n; i++) { sem_init(&S.sem[i], 0, 0); S.st[i] = p.thr[(size_t)i].empty() ? Sched::FIN : Sched::RUN; S.waitm[i] = nullptr; S.in_op[i] = false; }
    g_ex = &ex;
    vf_hook_trylock = hook_trylock; vf_hook_unlock = hook_unlock; vf_hook_usleep = hook_usleep;
    S.active = true;
    pthread_t th[MAXT];
    std::vector<int> live;
    for (int i = 0; i < S.n; i++) if (S.st[i] == Sched::RUN) { pthread_create(&th[i], nullptr, worker, (void *)(intptr_t)i); live.push_back(i); }
    if (!live.empty()) {
        // first decision: who starts
        t_id = -1;
        int first = live.size() == 1 ? live[0] : choose(live, false);
        S.cur = first;
        sem_post(&S.sem[first]);
        { struct timespec ts; clock_gettime(CLOCK_REALTIME, &ts); ts.tv_sec += 60;
          if (sem_timedwait(&S.done, &ts) != 0) { fprintf(stderr, "conc: scheduler stuck (harness problem), aborting the worker\n"); _exit(7); } }
        for (int i : live) pthread_join(th[i], nullptr);
    }
    S.active = false;
    vf_hook_trylock = nullptr; vf_hook_unlock = nullptr; vf_hook_usleep = nullptr;
    // a thread that finished all its operations and still holds the mutex (more acquisitions than
    // releases) has leaked it, even if no other thread happened to wait for it afterwards
    for (int i = 0; i < S.n; i++) if (S.depth[i] > 0) { S.leak = true; S.leak_at_exit = true; }
    if (S.leak) { ex.final_contents = "<not read: the container lock is held by a finished thread>"; ex.cont = nullptr; }   // the object is abandoned: releasing it would wait for the lock
    else { ex.final_contents = contents_of(p, ex.cont); destroy(p, ex.cont); ex.cont = nullptr; }
    for (int i = 0; i < S.n; i++) sem_destroy(&S.sem[i]);
    sem_destroy(&S.done);
}

// ------------------------------------------------------------------ linearizability search
bool lin_search(const Prog &p, const std::vector<Obs> &h, std::vector<bool> &done, Model &m, size_t ndone, const std::string &final_contents, std::vector<int> *order) {
    if (ndone == h.size()) return m.contents() == final_contents;
    for (size_t i = 0; i < h.size(); i++) {
        if (done[i]) continue;
        bool ok = true;      // every op that responded before i was invoked must already be placed
        for (size_t j = 0; j < h.size() && ok; j++) if (!done[j] && j != i && h[j].resp < h[i].inv) ok = false;
        if (!ok) continue;
        Model m2 = m;
        std::string r = m2.apply(p.thr[(size_t)h[i].thr][(size_t)h[i].idx]);
        if (r != h[i].res) continue;
        done[i] = true; if (order) order->push_back((int)i);
        if (lin_search(p, h, done, m2, ndone + 1, final_contents, order)) { m = m2; return true; }
        done[i] = false; if (order) order->pop_back();
    }
    return false;
}
std::string describe(const Prog &p, const Exec &ex) {
    std::string s = std::string(kname(p)) + (p.unique ? "(UNIQUE)" : "") + (p.limit ? "(max " + std::to_string(p.limit) + ")" : "") + " init[";
    for (auto &e : p.init) s += e + " ";
    s += "]";
    std::vector<Obs> h = ex.hist; std::sort(h.begin(), h.end(), [](const Obs &a, const Obs &b) { return a.inv < b.inv; });
    for (auto &o : h) s += strf(" | T%d %s @[%ld,%ld] -> %s", o.thr, opstr(p.kind, p.thr[(size_t)o.thr][(size_t)o.idx]).c_str(), o.inv, o.resp, hexs(o.res, 24).c_str());
    s += " | final {" + ex.final_contents + "}";
    s += " | schedule:"; for (auto &d : S.decisions) s += strf(" %d/%d", d.first, d.second);
    return s;
}
void verdict(Ctx &c, const Prog &p, const Exec &ex) {
    if (S.leak) c.fail(LIN | LOCK, (std::string("conc:lock-leaked:") + kname(p)).c_str(), "%s: %s", S.leak_at_exit ? "a thread finished its operations still holding the container lock (more acquisitions than releases)" : "all remaining threads wait for the container lock although no thread is inside an operation that could release it", describe(p, ex).c_str());
    Model m; m.kind = p.kind; m.unique = p.unique; m.limit = p.limit; m.wrap = p.wrap;
    bool padded = p.kind <= K_LIST && !p.wrap;
    for (size_t i = 0; i < p.init.size(); i++) { Op o; o.code = 0; o.key = "k" + std::to_string(i); o.val = padded ? padK(p.kind, p.init[i]) : p.init[i]; m.apply(o); }
    std::vector<bool> done(ex.hist.size(), false);
    // the model works on padded element values for sequences
    Prog q = p;
    if (padded) for (auto &t : q.thr) for (auto &o : t) o.val = padK(p.kind, o.val);
    if (!lin_search(q, ex.hist, done, m, 0, ex.final_contents, nullptr)) {
        std::string ops; for (auto &o : ex.hist) ops += opname(p.kind, p.thr[(size_t)o.thr][(size_t)o.idx].code), ops += "+";
        c.fail(LIN, (std::string("conc:not-linearizable:") + kname(p)).c_str(), "no one-at-a-time order of the calls explains the results and final contents: %s", describe(p, ex).c_str());
    }
}

// A copying walk WITHOUT the container lock is documented as allowed next to concurrent insertion
// and value replacement; next to concurrent deletion the documentation's promise ("set newmem if
// deletion is expected") does not hold in the library as pinned (the cursor keeps a pointer to the
// next node), and the listed property does not cover it.  Programs that contain such a walk are
// therefore restricted to non-destructive company: removals / pops / clears become copying gets,
// and a list table must not be UNIQUE (its put deletes the entries it replaces).
bool destructive(int kind, int code) { return kind <= K_LIST ? (code == 2 || code == 3 || code == 5 || code == 7 || code == 13 || code == 14) : (code == 2 || code == 3); }
void sanitize_unlocked(Prog &p) {
    bool has = false;
    for (auto &t : p.thr) for (auto &o : t) if (o.code == (p.kind <= K_LIST ? 11 : 5)) has = true;
    if (!has) return;
    p.unique = false;
    for (auto &t : p.thr) for (auto &o : t) if (destructive(p.kind, o.code)) o.code = p.kind <= K_LIST ? 4 : 1;
}

Prog gen_prog(Src &s) {
    Prog p;
    p.kind = (int)s.pick({4, 3, 2, 2, 3});
    p.unique = p.kind == K_LTBL && s.boolean();
    int ninit = (int)s.range(0, 3);
    if (p.kind == K_HASH) { static const size_t hr[] = {3, 3, 3, 3, 3, 3, 1, 2048}; p.hrange = hr[s.range(0, 7)]; }   // also tables of thousands of slots (sweeps over the whole range: clear, walks)
    if (p.kind == K_LIST && s.chance(1, 3)) { p.limit = (size_t)s.range(1, 3); if ((size_t)ninit > p.limit) ninit = (int)p.limit; }
    if (p.kind == K_LIST) p.wrap = (int)s.pick({3, 2, 2});
    for (int i = 0; i < ninit; i++) p.init.push_back(p.wrap ? std::to_string(900 + i) : "i" + std::to_string(i));
    int nt = (int)s.pick({3, 1}) == 0 ? 2 : 3;
    int vc = 0;
    for (int t = 0; t < nt; t++) {
        std::vector<Op> ops; int n = (int)s.range(1, 3);
        for (int i = 0; i < n; i++) {
            Op o;
            if (p.wrap) { static const int wc[] = {0, 2, 4, 5, 12, 13, 15, 16}; o.code = wc[s.pick({6, 3, 2, 1, 1, 2, 4, 2})]; o.val = std::to_string(100 + vc++); }
            else if (p.kind <= K_LIST) { o.code = (int)s.pick({5, 3, 4, 3, 2, 1, 3, 2, 2, 1, p.kind == K_LIST ? 2 : 0, 2, 2, 2, 1}); o.val = "v" + std::to_string(vc++); }
            else { int ni = p.kind == K_TREE ? 0 : 2; o.code = (int)s.pick({5, 3, 3, 1, 2, ni, ni, ni, 2}); o.key = "k" + std::to_string(s.range(0, 2)); o.val = o.code == 7 ? std::to_string(10 + vc++) : "v" + std::to_string(vc++); }
            ops.push_back(o);
        }
        p.thr.push_back(ops);
    }
    sanitize_unlocked(p);
    return p;
}

// ------------------------------------------------------------------ free-running stress (ThreadSanitizer flavour)
// The same programs, threads running freely and repeating their operations; the verdict is
// ThreadSanitizer's: any data-race report during the case is a violation ("no data race on
// container state").  Selected by VF_FREERUN=1; only meaningful in the -fsanitize=thread build.
std::atomic<int> g_tsan_reports{0};
bool g_freerun_mode = false;
struct FreeArg { const Prog *p; void *cont; int id; int iters; pthread_barrier_t *bar; };
void *free_worker(void *a) {
    FreeArg *fa = (FreeArg *)a;
    pthread_barrier_wait(fa->bar);
    for (int it = 0; it < fa->iters; it++) for (auto &o : fa->p->thr[(size_t)fa->id]) (void)do_op(*fa->p, fa->cont, o);
    return nullptr;
}
void run_free(Src &s, Ctx &c) {
    Prog p = gen_prog(s);
    int iters = (int)s.range(20, 200);
    // a third of the cases: every thread works on a container of its own (no sharing at all): any
    // race then is on state the library shares behind the containers' backs
    bool priv = s.chance(1, 3);
    std::vector<void *> conts;
    for (size_t t = 0; t < (priv ? p.thr.size() : 1); t++) {
        void *cont = create(p);
        if (!cont) throw CaseStop{"constructor failed"};
        // private containers get a few more elements so that the keys the threads work on (k0..k2) sit inside a non-trivial structure
        for (size_t i = 0; i < (priv ? 9 : p.init.size()); i++) { Op o; o.code = 0; o.key = i < 3 ? "k" + std::to_string(i) : std::string(1, (char)('a' + (i * 7) % 26)) + std::to_string(i); o.val = i < p.init.size() ? p.init[i] : "w" + std::to_string(i); do_op(p, cont, o); }
        conts.push_back(cont);
    }
    int before = g_tsan_reports.load();
    pthread_barrier_t bar; pthread_barrier_init(&bar, nullptr, (unsigned)p.thr.size());
    std::vector<pthread_t> th(p.thr.size()); std::vector<FreeArg> fa(p.thr.size());
    for (size_t i = 0; i < p.thr.size(); i++) { fa[i] = FreeArg{&p, priv ? conts[i] : conts[0], (int)i, iters, &bar}; pthread_create(&th[i], nullptr, free_worker, &fa[i]); }
    for (size_t i = 0; i < p.thr.size(); i++) pthread_join(th[i], nullptr);
    pthread_barrier_destroy(&bar);
    for (void *cont : conts) destroy(p, cont);
    std::string d = std::string(kname(p)) + (priv ? " (one private container per thread)" : "") + " free-running x" + std::to_string(iters);
    for (size_t t = 0; t < p.thr.size(); t++) { d += " | T" + std::to_string(t) + ":"; for (auto &o : p.thr[t]) d += " " + opstr(p.kind, o); }
    c.op("%s", d.c_str());
    int n = g_tsan_reports.load() - before;
    if (n > 0) c.fail(LIN, (std::string("conc:data-race:") + kname(p)).c_str(), "ThreadSanitizer reported %d data race(s) while running: %s", n, d.c_str());
    c.nontrivial = p.thr.size() >= 2;
    c.tag((std::string("freerun_") + kname(p)).c_str()); if (priv) c.tag("freerun_private_containers");
}
}  // namespace
extern "C" void __tsan_on_report(void *) { g_tsan_reports++; }
namespace {
}

bool vf_configure(Ctx &c) {
    // C14 uses the same scheduled programs for the part of its statement that needs a second thread
    // ("another thread's next operation always completes"): only the leaked-lock verdict decides there
    if (c.mode == "C14") { c.deciding = LOCK | CRASH | HANG; c.noteonly = LEAK | MEM; g_freerun_mode = false; return true; }
    if (c.mode != "C13") return false;
    c.deciding = LIN | MEM | CRASH | HANG; c.noteonly = LEAK;
    g_freerun_mode = getenv("VF_FREERUN") != nullptr;
    return true;
}

void run_case(Src &s, Ctx &c) {
    if (g_freerun_mode) { run_free(s, c); return; }
    Prog p = gen_prog(s);
    S.forced.clear(); S.rnd = &s; S.preempt_num = (int)s.range(1, 3); S.preempt_den = 4;
    Exec ex;
    execute(p, ex);
    S.rnd = nullptr;
    c.op("%s", describe(p, ex).c_str());
    c.check_san("concurrent program");
    verdict(c, p, ex);
    c.nontrivial = S.preempt_in_op > 0;
    c.tag(kname(p)); if (S.preempt_in_op) c.tag("schedule_with_preemption_inside_an_operation");
    if (S.bursts_used) c.tag("schedule_with_lock_wait_timeout_burst"); if (p.limit) c.tag("qlist_with_size_limit");
    c.tag(p.thr.size() == 2 ? "threads_2" : "threads_3");
}

// bounded-exhaustive: ALL schedules (every choice at every yield point) of tiny programs:
// 2 threads x <= 2 ops over a fixed op alphabet per kind, preemption bound from the tier
bool vf_enumerate(Ctx &c, EnumStats &st) {
    int shard = 0, nshards = 1;
    if (const char *e = getenv("VF_ENUM_SHARD")) sscanf(e, "%d/%d", &shard, &nshards);
    int pbound = c.tier ? 3 : 2;
    uint64_t pidx = 0;
    for (int kw = 0; kw < K_NKIND + 2; kw++) {
        int kind = kw < K_NKIND ? kw : K_LIST, wrap = kw < K_NKIND ? 0 : kw - K_NKIND + 1;     // the two extra rounds: qqueue, qstack
        std::vector<int> codes = kind <= K_LIST ? std::vector<int>{0, 2, 6, 8, 5, 11} : std::vector<int>{0, 1, 2, 4};
        if (kind == K_HASH || kind == K_LTBL) { codes.push_back(5); codes.push_back(6); }
        if (kind == K_LIST) codes.push_back(10);
        if (wrap) codes = {0, 2, 15, 16, 5, 13};
        // programs: thread0 = [a] or [a,b], thread1 = [c]
        for (int ninit = 0; ninit <= (kind == K_LTBL ? 3 : 1); ninit++)
            for (int a : codes) for (int b : codes) for (int cc : codes) for (int two = 0; two <= 1; two++) {
                if (!two && b != codes[0]) continue;
                if ((int)(pidx++ % (uint64_t)nshards) != shard) continue;
                Prog p; p.kind = kind; p.wrap = wrap; p.unique = kind == K_LTBL && ninit >= 2;
                if (kind == K_LIST && (pidx & 1)) p.limit = 2;
                for (int i = 0; i < (ninit & 1) + (kind <= K_LIST ? 1 : 0); i++) p.init.push_back(wrap ? std::to_string(900 + i) : "i" + std::to_string(i));
                auto mk = [&](int code, int n) { Op o; o.code = code; o.key = "k" + std::to_string(n % 2); o.val = wrap ? std::to_string(100 + n) : "v" + std::to_string(n); return o; };
                std::vector<Op> t0{mk(a, 0)}; if (two) t0.push_back(mk(b, 1));
                p.thr.push_back(t0); p.thr.push_back({mk(cc, 2)});
                { bool has = false, des = false; for (auto &t : p.thr) for (auto &o : t) { if (o.code == (kind <= K_LIST ? 11 : 5)) has = true; if (destructive(kind, o.code)) des = true; }
                  if (has && (des || p.unique)) continue; }
                // DFS over all schedules
                std::vector<int> prefix;
                uint64_t runs = 0;
                while (true) {
                    S.forced = prefix; S.rnd = nullptr;
                    Exec ex;
                    execute(p, ex);
                    runs++; st.evaluations++;
                    c.trace = describe(p, ex);
                    if (g_san_reports) c.fail(MEM, g_san_last, "sanitizer report under schedule: %s | %s", g_san_last, c.trace.c_str());
                    verdict(c, p, ex);
                    if (S.preempt_in_op) st.nontrivial++;
                    if (st.samples.size() < 4 && S.preempt_in_op && (st.evaluations % 1013) == 7) st.samples.push_back(c.trace);
                    // next schedule: last decision that can still be advanced within the preemption bound
                    std::vector<std::pair<int, int>> d = S.decisions; std::vector<bool> cr = S.cur_runnable_at;
                    long i = (long)d.size() - 1;
                    for (; i >= 0; i--) {
                        if (d[(size_t)i].first + 1 >= d[(size_t)i].second) continue;
                        // preemptions used by the prefix before i
                        int used = 0; for (long j = 0; j < i; j++) if (cr[(size_t)j] && d[(size_t)j].first > 0) used++;
                        bool adds = cr[(size_t)i];     // moving off choice 0 at a "stay" decision is a preemption
                        if (adds && used + 1 > pbound) continue;
                        break;
                    }
                    if (i < 0) break;
                    prefix.clear(); for (long j = 0; j < i; j++) prefix.push_back(d[(size_t)j].first);
                    prefix.push_back(d[(size_t)i].first + 1);
                    if (runs > 200000) { st.complete = false; break; }
                }
                st.states++;
                st.transitions += runs;
            }
    }
    st.extra["programs"] = st.states;
    st.extra["schedules_executed"] = st.transitions;
    st.extra["max_preemptions"] = (uint64_t)pbound;
    return true;
}
