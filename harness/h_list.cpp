// h_list.cpp - qlist / qqueue / qstack / qgrow harness.  Modes: C09 (exact sequences, FIFO /
// LIFO / concatenation), C11, C12.
#include "common/cont.hpp"
#include <cerrno>
#include <cinttypes>
#include <deque>
extern "C" {
#include "qlibc.h"
}
#include "common/via_members.hpp"   // after the prototypes: container calls go through the member pointers in half of the cases
using namespace vf;
const char *vf_harness_name = "list";

namespace {
struct Run : ContBase {
    int kind = 0;                 // 0 list, 1 queue, 2 stack, 3 grow
    qlist_t *l = nullptr; qqueue_t *q = nullptr; qstack_t *st = nullptr; qgrow_t *g = nullptr;
    std::deque<std::string> m;    // first -> last
    size_t maxn = 0;              // configured maximum (0 = unlimited)
    FILE *devnull = nullptr;
    int nt = 0, inner_removed = 0;

    Run(Src &s_, Ctx &c_, bool scr, bool ret) : ContBase(s_, c_, scr, ret, "list") {}
    ~Run() { if (l && kind == 0) qlist_free(l); if (q) qqueue_free(q); if (st) qstack_free(st); if (g) qgrow_free(g); if (devnull) fclose(devnull); }

    qlist_t *inner() { return kind == 0 ? l : kind == 1 ? q->list : kind == 2 ? st->list : g->list; }
    size_t datasum() { size_t t = 0; for (auto &e : m) t += e.size(); return t; }
    std::string gen_elem(bool str) {
        std::string v = gen_val(str, 64);      // (gen_val itself produces an occasional element around 128..4096 bytes)
        if (!str && s.chance(1, 4)) v.back() = '\0';      // trailing NUL matters for tostring
        return v;
    }
    void compare_all(const char *when, bool deep) {
        qlist_t *li = inner();
        size_t i = 0; qlist_obj_t *prev = nullptr;
        for (qlist_obj_t *o = li->first; o; prev = o, o = o->next, i++) {
            if (i >= m.size()) c.fail(FUNC, "list:contents", "%s: list has more than the %zu expected elements", when, m.size());
            if (o->prev != prev) c.fail(FUNC, "list:links", "%s: element %zu has a wrong back link", when, i);
            if (o->size != m[i].size() || memcmp(o->data, m[i].data(), o->size) != 0) c.fail(FUNC, "list:contents", "%s: element %zu is %s, expected %s", when, i, hexs(o->data, o->size, 12).c_str(), hexs(m[i], 12).c_str());
        }
        if (i != m.size()) c.fail(FUNC, "list:contents", "%s: list has %zu elements, expected %zu", when, i, m.size());
        if (li->last != prev) c.fail(FUNC, "list:links", "%s: last pointer does not point at the last element", when);
        if (qlist_size(li) != m.size()) c.fail(FUNC, "list:size", "%s: size()=%zu, expected %zu", when, qlist_size(li), m.size());
        if (qlist_datasize(li) != datasum()) c.fail(FUNC, "list:datasize", "%s: datasize()=%zu, expected %zu", when, qlist_datasize(li), datasum());
        if (!deep) return;
        for (size_t k = 0; k < m.size(); k++) {
            size_t sz = 0; void *p = qlist_getat(li, (int)k, &sz, false);
            if (!p || sz != m[k].size() || memcmp(p, m[k].data(), sz) != 0) c.fail(FUNC, "list:getat", "%s: getat(%zu) does not return element %zu", when, k, k);
            p = qlist_getat(li, (int)k - (int)m.size(), &sz, false);
            if (!p || sz != m[k].size() || memcmp(p, m[k].data(), sz) != 0) c.fail(FUNC, "list:getat", "%s: getat(%d) does not return element %zu", when, (int)k - (int)m.size(), k);
        }
    }
    void check_flat(bool asstring) {
        qlist_t *li = inner();
        errno = poison;
        if (!asstring) {
            bool nosz = s.chance(1, 6);                       // the size out-parameter is optional ("if not NULL")
            size_t sz = 12345, *szp = nosz ? nullptr : &sz; void *p = kind == 3 ? qgrow_toarray(g, szp) : qlist_toarray(li, szp);
            int e = errno;
            c.op("toarray(%s) n=%zu", nosz ? "size=NULL" : "", m.size());
            if (nosz) { sz = 0; for (auto &x : m) sz += x.size(); c.tag("null_size_outparam"); }
            if (m.empty()) { if (p || sz != 0) c.fail(FUNC, "list:toarray-empty", "toarray on an empty list returned data/size %zu", sz); if (e != ENOENT) c.fail(FUNC, "list:toarray-errno", "toarray on empty list: errno=%d", e); return; }
            std::string want; for (auto &x : m) want += x;
            if (!p || sz != want.size() || memcmp(p, want.data(), sz) != 0) c.fail(FUNC, "list:toarray", "toarray() returned %zu bytes that are not the concatenation of the %zu elements (%zu bytes)", sz, m.size(), want.size());
            see(p, sz); give_back(p, want, "toarray"); if (m.size() >= 2) nt += kind == 3;
        } else {
            char *p = kind == 3 ? qgrow_tostring(g) : qlist_tostring(li);
            int e = errno;
            c.op("tostring() n=%zu", m.size());
            if (m.empty()) { if (p) c.fail(FUNC, "list:tostring-empty", "tostring on an empty list returned a string"); if (e != ENOENT) c.fail(FUNC, "list:tostring-errno", "tostring on empty list: errno=%d", e); return; }
            std::string want; for (auto &x : m) want += (x.back() == '\0') ? x.substr(0, x.size() - 1) : x;
            if (!p || memcmp(p, want.data(), want.size()) != 0 || p[want.size()] != '\0') c.fail(FUNC, "list:tostring", "tostring() is not the concatenation of the elements without their trailing NUL");
            see(p, want.size() + 1); give_back(p, want + std::string(1, '\0'), "tostring"); if (m.size() >= 2) nt += kind == 3;
        }
    }

    // ------------------------------------------------------------ list ops
    long gen_index() { long n = (long)m.size(); return s.chance(1, 5) ? s.range(-n - 2, n + 2) : s.range(-n - 1, n); }
    bool burst_case = false;
    // element counts in the hundreds and thousands (index walks from both ends, long flattenings), not only a few dozen
    void l_burst() {
        if (maxn > 0) { size_t old = qlist_setsize(l, 0); c.op("setsize(0)"); if (old != maxn) c.fail(FUNC, "list:setsize", "setsize returned previous maximum %zu, expected %zu", old, maxn); maxn = 0; }
        size_t k = (size_t)s.range(50, 1500), n0 = m.size();
        bool front = s.chance(1, 4);
        c.op("burst: %zu x %s n=%zu", k, front ? "addfirst" : "addlast", n0);
        for (size_t i = 0; i < k; i++) {
            uint32_t h = (uint32_t)(n0 + i) * 2654435761u; size_t len = 1 + (h >> 5) % 12;
            std::string e(len, '\0'); for (size_t j = 0; j < len; j++) e[j] = (char)(h >> (8 * (j & 3))) ^ (char)(j * 17);
            Buf eb(e);
            errno = poison;
            bool ok = front ? qlist_addfirst(l, eb.p, eb.n) : qlist_addlast(l, eb.p, eb.n);
            if (!ok) c.fail(FUNC, "list:add-result", "add number %zu of a burst returned false with %zu elements (errno=%d)", i + 1, m.size(), errno);
            if (front) m.push_front(e); else m.push_back(e);
        }
        nt++;
    }
    void l_add() {
        int api = (int)s.pick({2, 3, 4});
        long idx = api == 0 ? 0 : api == 1 ? -1 : gen_index();
        bool bad = s.chance(1, 40);
        std::string v = gen_elem(false);
        Buf vb(v);
        long n = (long)m.size();
        long pos = idx < 0 ? n + idx + 1 : idx;
        bool full = maxn > 0 && m.size() >= maxn;
        bool inrange = pos >= 0 && pos <= n;
        errno = poison;
        bool ok = bad ? qlist_addat(l, (int)idx, s.boolean() ? nullptr : vb.p, 0)
                      : api == 0 ? qlist_addfirst(l, vb.p, vb.n) : api == 1 ? qlist_addlast(l, vb.p, vb.n) : qlist_addat(l, (int)idx, vb.p, vb.n);
        int e = errno;
        if (scribble) vb.scribble();
        c.op("%s(%ld,%s)%s n=%ld", bad ? "addat[invalid data]" : api == 0 ? "addfirst" : api == 1 ? "addlast" : "addat", idx, hexs(v, 8).c_str(), full ? " [full]" : !inrange ? " [out of range]" : "", n);
        seei(ok);
        if (bad) { if (ok) c.fail(FUNC, "list:add-invalid", "add with NULL data / size 0 succeeded"); if (e != EINVAL) c.fail(FUNC, "list:add-errno", "add with invalid data: errno=%d, expected EINVAL", e); return; }
        bool expect = !full && inrange;
        if (ok != expect) c.fail(FUNC, "list:add-result", "add at index %ld with %ld elements (max %zu) returned %d, expected %d (errno=%d)", idx, n, maxn, (int)ok, (int)expect, e);
        if (!ok) { int want = full ? ENOBUFS : ERANGE; if (e != want) c.fail(FUNC, "list:add-errno", "refused add: errno=%d, expected %d", e, want); if (pos == -1 || pos == n + 1 || full) nt++; return; }
        m.insert(m.begin() + pos, v);
        if (idx < 0 && pos > 0 && pos < n && pos >= n / 2) nt++;
    }
    void l_get() {
        int api = (int)s.pick({2, 2, 4});
        long idx = api == 0 ? 0 : api == 1 ? -1 : gen_index();
        bool newmem = s.boolean();
        long n = (long)m.size(); long pos = idx < 0 ? n + idx : idx;
        bool nosz = s.chance(1, 6);
        size_t sz = 4242, *szp = nosz ? nullptr : &sz;
        errno = poison;
        void *p = api == 0 ? qlist_getfirst(l, szp, newmem) : api == 1 ? qlist_getlast(l, szp, newmem) : qlist_getat(l, (int)idx, szp, newmem);
        int e = errno;
        c.op("%s(%ld,newmem=%d%s) n=%ld", api == 0 ? "getfirst" : api == 1 ? "getlast" : "getat", idx, (int)newmem, nosz ? ",size=NULL" : "", n);
        bool valid = pos >= 0 && pos < n;
        if (nosz && valid) { sz = m[pos].size(); c.tag("null_size_outparam"); }
        seei(p != nullptr);
        if (!valid) { if (p) c.fail(FUNC, "list:get-range", "get at index %ld with %ld elements returned data", idx, n); if (e != ERANGE) c.fail(FUNC, "list:get-errno", "out-of-range get: errno=%d, expected ERANGE", e); if (pos == -1 || pos == n) nt++; return; }
        if (!p || sz != m[pos].size() || memcmp(p, m[pos].data(), sz) != 0) c.fail(FUNC, "list:get", "get at index %ld (position %ld of %ld) returned %s, expected %s", idx, pos, n, p ? hexs(p, sz, 12).c_str() : "NULL", hexs(m[pos], 12).c_str());
        see(p, sz);
        if (newmem) give_back(p, m[pos], "get(newmem)");
    }
    void l_pop_remove() {
        bool pop = s.boolean();
        int api = (int)s.pick({2, 2, 4});
        long idx = api == 0 ? 0 : api == 1 ? -1 : gen_index();
        long n = (long)m.size(); long pos = idx < 0 ? n + idx : idx;
        bool valid = pos >= 0 && pos < n;
        bool nosz = pop && s.chance(1, 6);
        size_t sz = 4242, *szp = nosz ? nullptr : &sz; void *p = nullptr; bool ok = false;
        errno = poison;
        if (pop) { p = api == 0 ? qlist_popfirst(l, szp) : api == 1 ? qlist_poplast(l, szp) : qlist_popat(l, (int)idx, szp); ok = p != nullptr; }
        else ok = api == 0 ? qlist_removefirst(l) : api == 1 ? qlist_removelast(l) : qlist_removeat(l, (int)idx);
        int e = errno;
        if (nosz && valid) { sz = m[pos].size(); c.tag("null_size_outparam"); }
        c.op("%s%s(%ld) n=%ld", pop ? "pop" : "remove", api == 0 ? "first" : api == 1 ? "last" : "at", idx, n);
        seei(ok);
        if (ok != valid) c.fail(FUNC, "list:remove-result", "%s at index %ld with %ld elements returned %d, expected %d", pop ? "pop" : "remove", idx, n, (int)ok, (int)valid);
        if (!valid) { if (e != ERANGE) c.fail(FUNC, "list:remove-errno", "out-of-range %s: errno=%d, expected ERANGE", pop ? "pop" : "remove", e); if (pos == -1 || pos == n) nt++; return; }
        if (pop) {
            if (sz != m[pos].size() || memcmp(p, m[pos].data(), sz) != 0) c.fail(FUNC, "list:pop", "pop at index %ld returned %s, expected %s", idx, hexs(p, sz, 12).c_str(), hexs(m[pos], 12).c_str());
            see(p, sz); give_back(p, m[pos], "pop");
        }
        if (pos > 0 && pos < n - 1) { inner_removed++; if (idx < 0 && pos >= n / 2) nt++; }
        m.erase(m.begin() + pos);
    }
    void l_walk() {
        bool newmem = s.boolean();
        c.op("walk(newmem=%d) n=%zu", (int)newmem, m.size());
        qlist_obj_t o; memset(&o, 0, sizeof o);
        size_t i = 0;
        errno = poison;
        bool lookups = s.chance(1, 3);     // read-only calls between the steps: the list stays unmodified
        while (qlist_getnext(inner(), &o, newmem)) {
            if (lookups && !m.empty() && s.chance(1, 2)) {
                long gi = s.range(-(long)m.size(), (long)m.size() - 1); size_t gp = gi < 0 ? m.size() + gi : (size_t)gi; size_t gsz = 0;
                void *p = qlist_getat(inner(), (int)gi, &gsz, false);
                if (!p || gsz != m[gp].size() || memcmp(p, m[gp].data(), gsz) != 0) c.fail(FUNC, "list:get", "getat(%ld) between two steps of a walk returned the wrong element", gi);
                (void)qlist_size(inner());
            }
            if (i >= m.size()) c.fail(FUNC, "list:walk-extra", "walk returned more than %zu elements", m.size());
            if (o.size != m[i].size() || memcmp(o.data, m[i].data(), o.size) != 0) c.fail(FUNC, "list:walk-order", "walk step %zu returned %s, expected %s", i, hexs(o.data, o.size, 12).c_str(), hexs(m[i], 12).c_str());
            see(o.data, o.size);
            if (newmem) give_back(o.data, m[i], "getnext(newmem)");
            i++;
        }
        if (i != m.size()) c.fail(FUNC, "list:walk-missing", "walk returned %zu of %zu elements", i, m.size());
        if (errno != ENOENT) c.fail(FUNC, "list:walk-errno", "end of walk: errno=%d, expected ENOENT", errno);
    }
    void do_setsize() {
        size_t nm = (size_t)s.range(0, 6);
        size_t old = kind == 0 ? qlist_setsize(l, nm) : kind == 1 ? qqueue_setsize(q, nm) : qstack_setsize(st, nm);
        c.op("setsize(%zu) n=%zu", nm, m.size());
        if (old != maxn) c.fail(FUNC, "list:setsize", "setsize returned previous maximum %zu, expected %zu", old, maxn);
        maxn = nm;
    }

    // ------------------------------------------------------------ queue / stack ops (push side differs)
    void qs_push() {
        int api = (int)s.pick({3, 2, 2});
        bool full = maxn > 0 && m.size() >= maxn;
        std::string v; bool ok;
        errno = poison;
        if (api == 0) { v = gen_elem(false); Buf vb(v); ok = kind == 1 ? qqueue_push(q, vb.p, vb.n) : qstack_push(st, vb.p, vb.n); if (scribble) vb.scribble(); }
        else if (api == 1) { std::string t = gen_val(true, 40); Buf *b = Buf::cstr(t); ok = kind == 1 ? qqueue_pushstr(q, b->c()) : qstack_pushstr(st, b->c()); if (scribble) b->scribble(); delete b; v = t + std::string(1, '\0'); }
        else { int64_t n = s.pick({1, 1, 4}) == 2 ? (int64_t)s.range(-1000000, 1000000) : (s.boolean() ? INT64_MAX : INT64_MIN); ok = kind == 1 ? qqueue_pushint(q, n) : qstack_pushint(st, n); v.assign((const char *)&n, sizeof n); }
        int e = errno;
        c.op("%s(%s)%s n=%zu", api == 0 ? "push" : api == 1 ? "pushstr" : "pushint", hexs(v, 10).c_str(), full ? " [full]" : "", m.size());
        seei(ok);
        if (ok == full) c.fail(FUNC, "list:push-result", "push with %zu elements (max %zu) returned %d", m.size(), maxn, (int)ok);
        if (!ok) { if (e != ENOBUFS) c.fail(FUNC, "list:push-errno", "refused push: errno=%d, expected ENOBUFS", e); nt++; return; }
        if (kind == 1) m.push_back(v); else m.push_front(v);
    }
    void qs_pop_get() {
        bool pop = s.boolean();
        int api = (int)s.pick({3, 2, 2, 3});        // plain, str, int, at
        long n = (long)m.size();
        if (api == 1 && !m.empty() && m.front().back() != '\0') api = 0;      // popstr/getstr on an empty queue/stack: NULL
        if (api == 2 && (!m.empty() && m.front().size() != 8)) api = 0;
        long idx = api == 3 ? gen_index() : 0;
        long pos = idx < 0 ? n + idx : idx;
        bool valid = pos >= 0 && pos < n;
        bool newmem = s.boolean();
        bool nosz = (api == 0 || api == 3) && s.chance(1, 6);
        size_t sz = 777, *szp = nosz ? nullptr : &sz; void *p = nullptr; int64_t iv = 0;
        if (nosz && valid) { sz = m[pos].size(); c.tag("null_size_outparam"); }
        errno = poison;
        if (api == 0) p = pop ? (kind == 1 ? qqueue_pop(q, szp) : qstack_pop(st, szp)) : (kind == 1 ? qqueue_get(q, szp, newmem) : qstack_get(st, szp, newmem));
        else if (api == 1) { p = pop ? (void *)(kind == 1 ? qqueue_popstr(q) : qstack_popstr(st)) : (void *)(kind == 1 ? qqueue_getstr(q) : qstack_getstr(st)); newmem = true; }
        else if (api == 2) iv = pop ? (kind == 1 ? qqueue_popint(q) : qstack_popint(st)) : (kind == 1 ? qqueue_getint(q) : qstack_getint(st));
        else p = pop ? (kind == 1 ? qqueue_popat(q, (int)idx, szp) : qstack_popat(st, (int)idx, szp)) : (kind == 1 ? qqueue_getat(q, (int)idx, szp, newmem) : qstack_getat(st, (int)idx, szp, newmem));
        c.op("%s%s(%ld%s) n=%ld", pop ? "pop" : "get", api == 0 ? "" : api == 1 ? "str" : api == 2 ? "int" : "at", idx, pop ? "" : newmem ? ",newmem=1" : ",newmem=0", n);
        if (api == 2) {
            int64_t want = 0; if (valid) memcpy(&want, m[pos].data(), 8);
            seei((long)iv);
            if (iv != want) c.fail(FUNC, "list:popint", "%sint returned %" PRId64 ", expected %" PRId64 " (%s order)", pop ? "pop" : "get", iv, want, kind == 1 ? "first-in-first-out" : "last-in-first-out");
        } else {
            seei(p != nullptr);
            if ((p != nullptr) != valid) c.fail(FUNC, "list:pop-result", "%s at index %ld with %ld elements returned %s", pop ? "pop" : "get", idx, n, p ? "data" : "NULL");
            if (!valid) { if (pos == -1 || pos == n) nt++; return; }
            if ((api != 1 && sz != m[pos].size()) || memcmp(p, m[pos].data(), m[pos].size()) != 0) c.fail(FUNC, "list:pop-order", "%s returned %s, expected %s (%s order)", pop ? "pop" : "get", hexs(p, m[pos].size(), 12).c_str(), hexs(m[pos], 12).c_str(), kind == 1 ? "first-in-first-out" : "last-in-first-out");
            see(p, m[pos].size());
            if (pop || newmem) give_back(p, m[pos], pop ? "pop" : "get(newmem)");
        }
        if (valid && n >= 2) nt++;
        if (valid && pop) { if (pos > 0 && pos < n - 1) inner_removed++; m.erase(m.begin() + pos); }
    }
    void g_add() {
        int api = (int)s.pick({3, 2, 1});
        std::string v; bool ok;
        if (api == 0) { v = gen_elem(false); Buf vb(v); ok = qgrow_add(g, vb.p, vb.n); if (scribble) vb.scribble(); }
        else if (api == 1) { v = gen_val(true, 40); Buf *b = Buf::cstr(v); ok = qgrow_addstr(g, b->c()); if (scribble) b->scribble(); delete b; }
        else { long n = s.range(-99, 99); std::string t = gen_fmt_text(20, 2 + std::to_string(n).size()); Buf *b = Buf::cstr(t); ok = qgrow_addstrf(g, "%s=%ld;", b->c(), n); if (scribble) b->scribble(); delete b; v = t + "=" + std::to_string(n) + ";"; }
        c.op("%s(%s) n=%zu", api == 0 ? "add" : api == 1 ? "addstr" : "addstrf", hexs(v, 10).c_str(), m.size());
        seei(ok);
        if (!ok) c.fail(FUNC, "list:grow-add", "qgrow add returned false (errno=%d)", errno);
        m.push_back(v);
    }

    void run() {
        draw_poison();
        kind = (int)s.pick({6, 2, 2, 2});
        vf_ledger_on = 1;
        int lopt = s.chance(1, 4) ? QLIST_THREADSAFE : 0;      // a thread-safe container used by one thread behaves like a plain one
        if (lopt) c.tag("threadsafe_option_single_thread");
        if (kind == 0) l = qlist(lopt); else if (kind == 1) q = qqueue(lopt); else if (kind == 2) st = qstack(lopt); else g = qgrow(lopt);
        if (!l && !q && !st && !g) c.fail(FUNC, "list:ctor", "constructor returned NULL");
        c.op("%s()", kind == 0 ? "qlist" : kind == 1 ? "qqueue" : kind == 2 ? "qstack" : "qgrow");
        int maxops = c.tier ? 2000 : 400, ops = 0;
        burst_case = kind == 0 && s.chance(1, 15);
        if (burst_case) { c.tag("case_with_burst_adds"); maxops = 100; }
        while (!s.exhausted() && ops++ < maxops) {
            const char *what = "op";
            if (kind == 0) {
                int o = (int)s.pick({30, 12, 22, 3, 1, 2, 3, 3, 4, 1, 1, burst_case ? 2 : 0});
                switch (o) {
                    case 11: l_burst(); what = "burst"; break;
                    case 0: l_add(); what = "add"; break;
                    case 1: l_get(); what = "get"; break;
                    case 2: l_pop_remove(); what = "pop/remove"; break;
                    case 3: qlist_reverse(l); c.op("reverse() n=%zu", m.size()); std::reverse(m.begin(), m.end()); what = "reverse"; break;
                    case 4: qlist_clear(l); c.op("clear()"); note_outlived(); m.clear(); verify_kept(false); what = "clear"; break;
                    case 5: do_setsize(); what = "setsize"; break;
                    case 6: check_flat(false); what = "toarray"; break;
                    case 7: check_flat(true); what = "tostring"; break;
                    case 8: l_walk(); what = "walk"; break;
                    case 9: { if (!devnull) devnull = fopen("/dev/null", "w"); bool ok = qlist_debug(l, devnull); c.op("debug()"); if (!ok) c.fail(FUNC, "list:debug", "debug() returned false"); what = "debug"; break; }
                    default: c.op("size()/datasize()"); what = "size";
                }
            } else if (kind == 3) {
                int o = (int)s.pick({30, 6, 6, 1, 2});
                switch (o) {
                    case 0: g_add(); what = "add"; break;
                    case 1: check_flat(false); what = "toarray"; break;
                    case 2: check_flat(true); what = "tostring"; break;
                    case 3: qgrow_clear(g); c.op("clear()"); note_outlived(); m.clear(); verify_kept(false); what = "clear"; break;
                    default: { c.op("size()/datasize()"); if (qgrow_size(g) != m.size() || qgrow_datasize(g) != datasum()) c.fail(FUNC, "list:size", "qgrow size/datasize = %zu/%zu, expected %zu/%zu", qgrow_size(g), qgrow_datasize(g), m.size(), datasum()); what = "size"; }
                }
            } else {
                int o = (int)s.pick({30, 26, 2, 1, 3, 1});
                switch (o) {
                    case 0: qs_push(); what = "push"; break;
                    case 1: qs_pop_get(); what = "pop/get"; break;
                    case 2: do_setsize(); what = "setsize"; break;
                    case 3: if (kind == 1) qqueue_clear(q); else qstack_clear(st); c.op("clear()"); note_outlived(); m.clear(); verify_kept(false); what = "clear"; break;
                    case 4: { size_t n = kind == 1 ? qqueue_size(q) : qstack_size(st); c.op("size()"); if (n != m.size()) c.fail(FUNC, "list:size", "size()=%zu, expected %zu", n, m.size()); what = "size"; break; }
                    default: { if (!devnull) devnull = fopen("/dev/null", "w"); bool ok = kind == 1 ? qqueue_debug(q, devnull) : qstack_debug(st, devnull); c.op("debug()"); if (!ok) c.fail(FUNC, "list:debug", "debug() returned false"); what = "debug"; }
                }
            }
            compare_all(what, (ops & 7) == 0);
            c.check_san(what);
        }
        compare_all("end of history", true);
        if (kind == 0 || kind == 3) { check_flat(false); check_flat(true); }
        if (kind != 3) l_walk();
        note_outlived(); verify_kept(false);
        bool nonempty = !m.empty();
        if (kind == 0) { qlist_free(l); l = nullptr; } else if (kind == 1) { qqueue_free(q); q = nullptr; } else if (kind == 2) { qstack_free(st); st = nullptr; } else { qgrow_free(g); g = nullptr; }
        c.op("free()");
        verify_kept(true);
        leak_verdict("free");
        c.tag(kind == 0 ? "kind_list" : kind == 1 ? "kind_queue" : kind == 2 ? "kind_stack" : "kind_grow");
        if (c.mode == "C09") c.nontrivial = nt > 0;
        else if (c.mode == "C11") c.nontrivial = inner_removed > 0 && nonempty;
        else if (c.mode == "C12") c.nontrivial = copies_outlived > 0;
    }
};
}  // namespace

bool vf_configure(Ctx &c) { return configure_container(c, "C09", FUNC); }
void run_case(Src &s, Ctx &c) { run_modes<Run>(s, c, "list"); }
