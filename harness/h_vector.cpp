// h_vector.cpp - qvector harness.  Modes: C10 (exact array under every growth policy), C11, C12.
#include "common/cont.hpp"
#include <cerrno>
#include <algorithm>
extern "C" {
#include "qlibc.h"
}
#include "common/via_members.hpp"   // after the prototypes: container calls go through the member pointers in half of the cases
using namespace vf;
const char *vf_harness_name = "vector";

namespace {
struct Run : ContBase {
    qvector_t *v = nullptr;
    std::vector<std::string> m;
    size_t objsize = 0, cap = 0; int policy = 0; bool combo = false, tsafe = false;
    FILE *devnull = nullptr;
    int nt = 0, grown = 0, inner_removed = 0; bool after_resize0 = false;

    Run(Src &s_, Ctx &c_, bool scr, bool ret) : ContBase(s_, c_, scr, ret, "vector") {}
    ~Run() { if (v) qvector_free(v); if (devnull) fclose(devnull); }

    std::string gen_elem() {
        int fill = (int)s.pick({1, 1, 3, 2});
        uint32_t x = (uint32_t)s.u8() * 2654435761u + 99u;
        std::string e;
        for (size_t i = 0; i < objsize; i++) { x = x * 1103515245u + 12345u; e.push_back(fill == 0 ? (char)0 : fill == 1 ? (char)0xff : fill == 2 ? (char)(x >> 16) : (char)('a' + (x >> 16) % 26)); }
        return e;
    }
    long gen_index() { long n = (long)m.size(); return s.chance(1, 5) ? s.range(-n - 2, n + 2) : s.range(-n - 1, n); }

    void compare_all(const char *when, bool deep) {
        if (qvector_size(v) != m.size()) c.fail(FUNC, "vector:size", "%s: size()=%zu, expected %zu", when, qvector_size(v), m.size());
        if (v->objsize != objsize) c.fail(FUNC, "vector:objsize", "%s: element size became %zu, the vector was created with %zu", when, v->objsize, objsize);
        for (size_t i = 0; i < m.size(); i++) {
            const uint8_t *p = (const uint8_t *)v->data + i * objsize;
            if (memcmp(p, m[i].data(), objsize) != 0) c.fail(FUNC, "vector:contents", "%s: element %zu is %s, expected %s", when, i, hexs(p, objsize, 12).c_str(), hexs(m[i], 12).c_str());
        }
        if (!deep) return;
        for (size_t i = 0; i < m.size(); i++) {
            void *p = qvector_getat(v, (int)i, false);
            if (!p || memcmp(p, m[i].data(), objsize) != 0) c.fail(FUNC, "vector:getat", "%s: getat(%zu) does not return element %zu", when, i, i);
            p = qvector_getat(v, (int)i - (int)m.size(), false);
            if (!p || memcmp(p, m[i].data(), objsize) != 0) c.fail(FUNC, "vector:getat", "%s: getat(%d) does not return element %zu", when, (int)i - (int)m.size(), i);
        }
    }
    void do_add() {
        int api = (int)s.pick({2, 4, 4});
        long n = (long)m.size();
        long idx = api == 0 ? 0 : api == 1 ? n : gen_index();
        long pos = idx < 0 ? n + idx : idx;
        bool valid = pos >= 0 && pos <= n;
        std::string e = gen_elem(); Buf eb(e);
        size_t max0 = v->max;
        errno = poison;
        bool ok = api == 0 ? qvector_addfirst(v, eb.p) : api == 1 ? qvector_addlast(v, eb.p) : qvector_addat(v, (int)idx, eb.p);
        int er = errno;
        if (scribble) eb.scribble();
        c.op("%s(%ld,%s)%s n=%ld cap=%zu", api == 0 ? "addfirst" : api == 1 ? "addlast" : "addat", idx, hexs(e, 8).c_str(), valid ? "" : " [out of range]", n, max0);
        seei(ok);
        if (ok != valid) c.fail(FUNC, "vector:add-result", "add at index %ld with %ld elements returned %d, expected %d (errno=%d)", idx, n, (int)ok, (int)valid, er);
        if (!ok) { if (er != ERANGE) c.fail(FUNC, "vector:add-errno", "refused add: errno=%d, expected ERANGE", er); return; }
        m.insert(m.begin() + pos, e);
        if (v->max != max0) grown++;
        if ((grown && pos > 0 && pos < n) || after_resize0) nt++;
    }
    bool burst_case = false;
    void do_burst() {
        size_t k = (size_t)s.range(50, 1500), n0 = m.size();
        bool front = s.chance(1, 6) && k <= 300;            // inserting at the front shifts everything: keep those bursts short
        c.op("burst: %zu x %s n=%zu cap=%zu", k, front ? "addfirst" : "addlast", n0, v->max);
        for (size_t i = 0; i < k; i++) {
            std::string e(objsize, '\0'); uint32_t h = (uint32_t)(n0 + i) * 2654435761u; for (size_t j = 0; j < objsize; j++) e[j] = (char)(h >> (8 * (j & 3))) ^ (char)j;
            Buf eb(e);
            errno = poison;
            bool ok = front ? qvector_addfirst(v, eb.p) : qvector_addlast(v, eb.p);
            if (!ok) c.fail(FUNC, "vector:add-result", "add number %zu of a burst returned false with %zu elements (errno=%d)", i + 1, m.size(), errno);
            if (front) m.insert(m.begin(), e); else m.push_back(e);
        }
        grown++; nt++;
    }
    void do_get() {
        int api = (int)s.pick({2, 2, 4});
        long idx = api == 0 ? 0 : api == 1 ? -1 : gen_index();
        bool newmem = s.boolean();
        long n = (long)m.size(), pos = idx < 0 ? n + idx : idx;
        bool valid = pos >= 0 && pos < n;
        errno = poison;
        void *p = api == 0 ? qvector_getfirst(v, newmem) : api == 1 ? qvector_getlast(v, newmem) : qvector_getat(v, (int)idx, newmem);
        int er = errno;
        c.op("%s(%ld,newmem=%d) n=%ld", api == 0 ? "getfirst" : api == 1 ? "getlast" : "getat", idx, (int)newmem, n);
        seei(p != nullptr);
        if ((p != nullptr) != valid) c.fail(FUNC, "vector:get-result", "get at index %ld with %ld elements returned %s", idx, n, p ? "data" : "NULL");
        if (!valid) { int want = n == 0 ? ENOENT : ERANGE; if (er != want) c.fail(FUNC, "vector:get-errno", "refused get: errno=%d, expected %d", er, want); return; }
        if (memcmp(p, m[pos].data(), objsize) != 0) c.fail(FUNC, "vector:get", "get at index %ld (position %ld) returned %s, expected %s", idx, pos, hexs(p, objsize, 12).c_str(), hexs(m[pos], 12).c_str());
        see(p, objsize);
        if (newmem) give_back(p, m[pos], "get(newmem)");
        if (after_resize0) nt++;
    }
    void do_set() {
        int api = (int)s.pick({2, 2, 4});
        long idx = api == 0 ? 0 : api == 1 ? -1 : gen_index();
        long n = (long)m.size(), pos = idx < 0 ? n + idx : idx;
        bool valid = pos >= 0 && pos < n;
        std::string e = gen_elem(); Buf eb(e);
        errno = poison;
        bool ok = api == 0 ? qvector_setfirst(v, eb.p) : api == 1 ? qvector_setlast(v, eb.p) : qvector_setat(v, (int)idx, eb.p);
        if (scribble) eb.scribble();
        c.op("%s(%ld,%s) n=%ld", api == 0 ? "setfirst" : api == 1 ? "setlast" : "setat", idx, hexs(e, 8).c_str(), n);
        seei(ok);
        if (ok != valid) c.fail(FUNC, "vector:set-result", "set at index %ld with %ld elements returned %d", idx, n, (int)ok);
        if (ok) m[pos] = e;
    }
    void do_pop_remove() {
        bool pop = s.boolean();
        int api = (int)s.pick({2, 2, 4});
        long idx = api == 0 ? 0 : api == 1 ? -1 : gen_index();
        long n = (long)m.size(), pos = idx < 0 ? n + idx : idx;
        bool valid = pos >= 0 && pos < n;
        void *p = nullptr; bool ok;
        errno = poison;
        if (pop) { p = api == 0 ? qvector_popfirst(v) : api == 1 ? qvector_poplast(v) : qvector_popat(v, (int)idx); ok = p != nullptr; }
        else ok = api == 0 ? qvector_removefirst(v) : api == 1 ? qvector_removelast(v) : qvector_removeat(v, (int)idx);
        int er = errno;
        c.op("%s%s(%ld) n=%ld", pop ? "pop" : "remove", api == 0 ? "first" : api == 1 ? "last" : "at", idx, n);
        seei(ok);
        if (ok != valid) c.fail(FUNC, "vector:remove-result", "%s at index %ld with %ld elements returned %d, expected %d", pop ? "pop" : "remove", idx, n, (int)ok, (int)valid);
        if (!valid) { int want = n == 0 ? ENOENT : ERANGE; if (er != want) c.fail(FUNC, "vector:remove-errno", "refused %s: errno=%d, expected %d", pop ? "pop" : "remove", er, want); return; }
        if (pop) { if (memcmp(p, m[pos].data(), objsize) != 0) c.fail(FUNC, "vector:pop", "pop at index %ld returned %s, expected %s", idx, hexs(p, objsize, 12).c_str(), hexs(m[pos], 12).c_str()); see(p, objsize); give_back(p, m[pos], "pop"); }
        if (pos > 0 && pos < n - 1) { inner_removed++; if (grown) nt++; }
        m.erase(m.begin() + pos);
    }
    // a capacity that any machine can provide but that is far beyond the handful of elements a history holds:
    // around the powers of two 128..8192, at most 4 MiB of element storage
    size_t big_cap() {
        size_t c0 = ((size_t)1 << s.range(7, 13)) + (size_t)s.range(0, 2) - 1;
        size_t lim = ((size_t)4 << 20) / objsize;
        return c0 > lim ? lim : c0;
    }
    void do_resize() {
        long n = (long)m.size();
        if (s.chance(1, 10)) {
            // a capacity nobody can provide: the request must be refused without any effect
            // ... including element counts whose byte size does not even fit in a size_t
            size_t lim = (size_t)-1 / objsize;
            int hk = (int)s.range(0, 4);
            size_t huge = hk == 0 ? lim - (size_t)s.range(0, 3) : hk == 1 ? (size_t)-1 - (size_t)s.range(0, 2) : hk == 2 ? (objsize > 1 ? lim + 1 + (size_t)s.range(0, 2) : lim) : hk == 3 ? ((size_t)1 << 62) + (size_t)s.range(0, 2) : ((size_t)1 << 63) + (size_t)s.range(0, 1);
            if (objsize == 1 && huge < ((size_t)1 << 60)) huge = lim;
            size_t max0 = v->max, num0 = v->num; void *data0 = v->data;
            errno = poison;
            bool ok = qvector_resize(v, huge);
            c.op("resize(%zu = about 2^%d elements of %zu bytes) n=%ld", huge, (int)(huge >> 62 ? (huge >> 63 ? 63 : 62) : 61), objsize, n);
            seei(ok);
            if (ok) c.fail(FUNC, "vector:resize-huge", "resize to %zu elements of %zu bytes reported success", huge, objsize);
            if (v->max != max0 || v->num != num0 || v->data != data0) c.fail(FUNC, "vector:resize-refused-effect", "a refused resize changed the vector: capacity %zu -> %zu, count %zu -> %zu", max0, v->max, num0, v->num);
            return;
        }
        size_t nm = s.chance(1, 4) ? 0 : (size_t)s.range(0, 2 * n + 3);
        if (s.chance(1, 10)) { nm = big_cap(); c.tag("large_resize"); }
        bool ok = qvector_resize(v, nm);
        c.op("resize(%zu) n=%ld cap=%zu", nm, n, cap);
        seei(ok);
        if (!ok) c.fail(FUNC, "vector:resize", "resize(%zu) returned false (errno=%d)", nm, errno);
        if (nm < m.size()) m.resize(nm);
        if (nm == 0) after_resize0 = true;
    }
    void do_toarray() {
        bool nosz = s.chance(1, 6);                        // "size: if not NULL ..."
        size_t cnt = 4242;
        errno = poison;
        void *p = qvector_toarray(v, nosz ? nullptr : &cnt);
        int er = errno;
        c.op("toarray(%s) n=%zu", nosz ? "size=NULL" : "", m.size());
        if (nosz) { cnt = m.size(); c.tag("null_size_outparam"); }
        if (m.empty()) { if (p || cnt != 0) c.fail(FUNC, "vector:toarray-empty", "toarray on an empty vector returned data / count %zu", cnt); if (er != ENOENT) c.fail(FUNC, "vector:toarray-errno", "toarray on empty vector: errno=%d", er); return; }
        std::string want; for (auto &e : m) want += e;
        if (!p || cnt != m.size() || memcmp(p, want.data(), want.size()) != 0) c.fail(FUNC, "vector:toarray", "toarray() returned %zu elements that differ from the %zu stored", cnt, m.size());
        see(p, want.size()); give_back(p, want, "toarray");
    }
    void do_walk() {
        bool newmem = s.boolean();
        c.op("walk(newmem=%d) n=%zu", (int)newmem, m.size());
        qvector_obj_t o; memset(&o, 0, sizeof o);
        size_t i = 0;
        errno = poison;
        bool lookups = s.chance(1, 3);     // read-only calls between the steps: the vector stays unmodified
        while (qvector_getnext(v, &o, newmem)) {
            if (lookups && !m.empty() && s.chance(1, 2)) {
                long gi = s.range(0, (long)m.size() - 1);
                void *p = qvector_getat(v, (int)gi, false);
                if (!p || memcmp(p, m[(size_t)gi].data(), objsize) != 0) c.fail(FUNC, "vector:get", "getat(%ld) between two steps of a walk returned the wrong element", gi);
                (void)qvector_size(v);
            }
            if (i >= m.size()) c.fail(FUNC, "vector:walk-extra", "walk returned more than %zu elements", m.size());
            if (memcmp(o.data, m[i].data(), objsize) != 0) c.fail(FUNC, "vector:walk-order", "walk step %zu returned %s, expected %s", i, hexs(o.data, objsize, 12).c_str(), hexs(m[i], 12).c_str());
            see(o.data, objsize);
            if (newmem) give_back(o.data, m[i], "getnext(newmem)");
            i++;
        }
        if (i != m.size()) c.fail(FUNC, "vector:walk-missing", "walk returned %zu of %zu elements", i, m.size());
        if (errno != ENOENT) c.fail(FUNC, "vector:walk-errno", "end of walk: errno=%d, expected ENOENT", errno);
    }

    void run() {
        draw_poison();
        { int k = (int)s.pick({6, 2, 2});
          static const size_t edge[] = {64, 128, 256, 256, 512, 768, 1024, 4096};
          objsize = k == 0 ? (size_t)s.range(1, 16) : k == 1 ? (size_t)s.range(17, 64) : edge[s.range(0, 7)] + (size_t)s.range(0, 2) - 1; }   // also around/at plausible internal buffer sizes
        cap = (size_t)s.range(0, 8);
        if (s.chance(1, 8)) { cap = big_cap(); c.tag("large_initial_capacity"); }   // capacities in the hundreds and thousands, not only a handful
        policy = (int)s.range(0, 2);
        int opt = policy == 0 ? (s.boolean() ? QVECTOR_RESIZE_EXACT : 0) : policy == 1 ? QVECTOR_RESIZE_LINEAR : QVECTOR_RESIZE_DOUBLE;
        // any subset of the policy bits is a legal option word (the contents never depend on which one wins),
        // and a thread-safe vector used by one thread behaves like a plain one
        if (s.chance(1, 5)) { opt = 0; if (s.boolean()) opt |= QVECTOR_RESIZE_EXACT; if (s.boolean()) opt |= QVECTOR_RESIZE_LINEAR; if (s.boolean()) opt |= QVECTOR_RESIZE_DOUBLE; policy = (opt & QVECTOR_RESIZE_DOUBLE) ? 2 : (opt & QVECTOR_RESIZE_LINEAR) ? 1 : 0; combo = true; }
        if (s.chance(1, 4)) { opt |= QVECTOR_THREADSAFE; tsafe = true; }
        vf_ledger_on = 1;
        if (s.chance(1, 12)) {
            size_t lim = (size_t)-1 / objsize;
            size_t hugecap = s.boolean() ? lim - (size_t)s.range(0, 2) : (objsize > 1 ? lim + 1 + (size_t)s.range(0, 2) : lim);
            errno = poison;
            qvector_t *hv = qvector(hugecap, objsize, opt);
            c.op("qvector(max=%zu, objsize=%zu): a capacity nobody can provide", hugecap, objsize);
            if (hv) { size_t mx = hv->max; qvector_free(hv); c.fail(FUNC, "vector:ctor-huge", "qvector(%zu,%zu) returned a vector claiming capacity %zu", hugecap, objsize, mx); }
        }
        v = qvector(cap, objsize, opt);
        if (!v) c.fail(FUNC, "vector:ctor", "qvector(%zu,%zu,%d) returned NULL", cap, objsize, opt);
        c.op("qvector(max=%zu, objsize=%zu, options 0x%x: %s%s%s)", cap, objsize, opt, policy == 0 ? "EXACT" : policy == 1 ? "LINEAR" : "DOUBLE", combo ? " [policy bits combined]" : "", tsafe ? " THREADSAFE" : "");
        int maxops = c.tier ? 2000 : 400, ops = 0;
        burst_case = objsize <= 64 && s.chance(1, 15);     // element counts in the hundreds and thousands (many growth steps), not only a few dozen
        if (burst_case) { c.tag("case_with_burst_adds"); maxops = 120; }
        while (!s.exhausted() && ops++ < maxops) {
            int o = (int)s.pick({30, 10, 8, 20, 4, 1, 3, 3, 3, 1, 2, burst_case ? 2 : 0});
            const char *what = "op";
            switch (o) {
                case 11: do_burst(); what = "burst"; break;
                case 0: do_add(); what = "add"; break;
                case 1: do_get(); what = "get"; break;
                case 2: do_set(); what = "set"; break;
                case 3: do_pop_remove(); what = "pop/remove"; break;
                case 4: do_resize(); what = "resize"; break;
                case 5: qvector_clear(v); c.op("clear()"); note_outlived(); m.clear(); verify_kept(false); what = "clear"; break;
                case 6: do_toarray(); what = "toarray"; break;
                case 7: qvector_reverse(v); c.op("reverse() n=%zu", m.size()); std::reverse(m.begin(), m.end()); what = "reverse"; break;
                case 8: do_walk(); what = "walk"; break;
                case 10: {   // adds documented as refused (EINVAL): NULL data at any position
                    int kind = (int)s.range(0, 2); int idx = m.empty() ? 0 : (int)s.range(0, (long)m.size());
                    errno = poison;
                    bool ok = kind == 0 ? qvector_addfirst(v, nullptr) : kind == 1 ? qvector_addlast(v, nullptr) : qvector_addat(v, idx, nullptr);
                    int e = errno;
                    c.op("refused call %s(NULL data) n=%zu", kind == 0 ? "addfirst" : kind == 1 ? "addlast" : "addat", m.size());
                    if (ok) c.fail(FUNC, "vector:invalid-accepted", "add with NULL data succeeded, documented EINVAL");
                    if (e != EINVAL) c.fail(FUNC, "vector:invalid-errno", "add with NULL data: errno=%d, documented EINVAL", e);
                    what = "refused call"; break; }
                default: { if (!devnull) devnull = fopen("/dev/null", "w"); bool ok = qvector_debug(v, devnull); c.op("debug()"); if (!ok) c.fail(FUNC, "vector:debug", "debug() returned false"); what = "debug"; }
            }
            compare_all(what, (ops & 7) == 0);
            c.check_san(what);
        }
        compare_all("end of history", true);
        do_toarray(); do_walk();
        note_outlived(); verify_kept(false);
        bool nonempty = !m.empty();
        qvector_free(v); v = nullptr;
        c.op("free()");
        verify_kept(true);
        leak_verdict("qvector_free");
        c.tag(policy == 0 ? "policy_exact" : policy == 1 ? "policy_linear" : "policy_double"); if (combo) c.tag("policy_bits_combined"); if (tsafe) c.tag("threadsafe_option_single_thread");
        if (after_resize0) c.tag("case_with_resize_to_zero"); if (grown) c.tag("case_with_growth");
        if (c.mode == "C10") c.nontrivial = nt > 0;
        else if (c.mode == "C11") c.nontrivial = inner_removed > 0 && nonempty;
        else if (c.mode == "C12") c.nontrivial = copies_outlived > 0;
    }
};
}  // namespace

bool vf_configure(Ctx &c) { return configure_container(c, "C10", FUNC); }
void run_case(Src &s, Ctx &c) { run_modes<Run>(s, c, "vector"); }
