// h_conf.cpp - configuration parsers deliver exactly what the file says.  Mode C20.
// Documents are generated from the grammar together with their expected result (INI: entry
// list; Apache style: callback stream, return count, or the line of the one injected violation).
#include "common/vf.hpp"
#include "common/callers.hpp"
#include <memory>
#include <algorithm>
#include <cerrno>
#include <unistd.h>
#include <sys/stat.h>
#include <strings.h>
extern "C" {
#include "qlibc.h"
#include "qlibcext.h"
}
using namespace vf;
const char *vf_harness_name = "conf";

namespace {
std::string g_dir;
int g_slot = 0;                                   // generation-time: which thread's directory the files go to
std::string slot_dir() { return g_dir + "/s" + std::to_string(g_slot); }
void write_file(const std::string &path, const std::string &content) {
    FILE *f = fopen(path.c_str(), "wb");
    if (!f) throw CaseStop{"cannot write temp file"};
    if (!content.empty()) fwrite(content.data(), 1, content.size(), f);
    fclose(f);
}
std::string pad(Src &s) { static const char *p[] = {"", "", " ", "  ", "\t", " \t "}; return p[s.range(0, 5)]; }
std::string ident(Src &s, size_t maxlen = 6) { std::string r; size_t n = (size_t)s.range(1, (long)maxlen); for (size_t i = 0; i < n; i++) r.push_back("abcXYZ019_"[s.range(0, 9)]); return r; }

// =====================================================================================  INI
struct IniGen {
    Src &s; char sep;
    std::vector<std::pair<std::string, std::string>> expect;     // entries in file order
    std::map<std::string, std::string> cur;                       // value in effect per full name
    std::vector<std::string> names;                               // defined full names, in order
    std::string section;
    bool longnames = false;       // this document has section names and keys of several hundred characters (prefixed keys around 1024)
    std::string name_() {
        std::string r = ident(s);
        if (longnames && s.boolean()) { size_t L = s.chance(1, 4) ? (size_t)s.range(1015, 1035) : (size_t)s.range(490, 530); while (r.size() < L) r += ident(s, 6); r.resize(L); }
        return r;
    }
    int nrefs = 0, nsections = 0, nnested = 0, nenv = 0, nundef = 0, nmany = 0, manyctr = 0;
    bool has_undef = false;                                       // the value being generated contains an undefined reference
    std::map<size_t, std::string> alt;                            // entry index -> the other acceptable value (undefined references dropped)
    IniGen(Src &s_, char sep_) : s(s_), sep(sep_) {}

    std::string text_piece() {
        static const char alpha[] = "abcXYZ019 _-.,;/@!%&*()+'\"<>?|~^{}[]=:";
        size_t n = (size_t)s.range(0, 10); std::string r;
        for (size_t i = 0; i < n; i++) r.push_back(alpha[s.range(0, (long)sizeof(alpha) - 2)]);
        return r;
    }
    // returns (source text, expanded value)
    std::pair<std::string, std::string> gen_value() {
        std::string src, val;
        int parts = (int)s.range(0, 4);
        for (int i = 0; i < parts; i++) {
            int k = (int)s.pick({5, names.empty() ? 0 : 4, 1, 1, names.size() < 2 ? 0 : 1, 1});
            if (k == 5) {
                // a reference to a name that has no value (and never gets one): what becomes of it is not
                // documented - kept literally (observed) or dropped - but the references around it on the
                // same line still have to be replaced
                std::string u = "${undef_" + ident(s, 3) + "}"; src += u; val += u; nundef++; has_undef = true; continue;
            }
            if (k == 0) { std::string t = text_piece(); src += t; val += t; }
            else if (k == 1) { const std::string &n = names[s.range(0, (long)names.size() - 1)]; src += "${" + n + "}"; val += cur[n]; nrefs++; }
            else if (k == 2) { src += "${%VF_SET_ENV}"; val += "env value-1"; nenv++; }
            else if (k == 3) { src += "${%VF_UNSET_ENV}"; nenv++; }
            else {
                // one level of nesting: ${${k}} where the value in effect of k is itself a defined name
                for (auto &n : names) if (cur.count(cur[n])) { src += "${${" + n + "}}"; val += cur[cur[n]]; nnested++; nrefs++; break; }
            }
        }
        return {src, val};
    }
    static std::string trim(const std::string &x) { size_t a = 0, b = x.size(); while (a < b && strchr(" \t\r\n", x[a])) a++; while (b > a && strchr(" \t\r\n", x[b - 1])) b--; return x.substr(a, b - a); }
    void define(const std::string &full, const std::string &val) { expect.push_back({full, val}); cur[full] = val; names.push_back(full); }

    std::string lines(int maxlines, bool allow_sections) {
        std::string doc;
        int n = (int)s.range(0, maxlines);
        for (int i = 0; i < n && !s.exhausted(); i++) {
            int k = (int)s.pick({2, 2, allow_sections ? 3 : 0, 12, 2, names.empty() ? 0 : 2, 1});
            if (k == 6) {
                // one value made of many distinct references (more than any small fixed number of expansion rounds)
                int nk = (int)s.range(20, 70); std::vector<std::string> made;
                for (int q = 0; q < nk; q++) { std::string key = "m" + std::to_string(manyctr++); std::string v = text_piece(); v = trim(v); if (v.find('$') != std::string::npos) v = "x"; doc += key + std::string(1, sep) + v + "\n"; define(section.empty() ? key : section + "." + key, v); made.push_back(section.empty() ? key : section + "." + key); }
                std::string src, val; for (auto &nm : made) { src += "${" + nm + "}" + (s.boolean() ? "," : ""); val += cur[nm] + (src.back() == ',' ? "," : ""); }
                std::string key = "all" + std::to_string(manyctr++);
                doc += key + std::string(1, sep) + src + "\n"; define(section.empty() ? key : section + "." + key, trim(val)); nrefs += nk; nmany++;
                continue;
            }
            if (k == 0) doc += pad(s) + "\n";
            else if (k == 1) doc += pad(s) + "#" + text_piece() + "${x} = y\n";
            else if (k == 2) {
                if (s.chance(1, 5)) { doc += pad(s) + "[" + pad(s) + "]" + pad(s) + "\n"; section.clear(); }
                else { std::string nm = name_(); if (s.chance(1, 5)) nm += " " + ident(s, 3); doc += pad(s) + "[" + pad(s) + nm + pad(s) + "]" + pad(s) + "\n"; section = nm; nsections++; define(nm + ".", nm); }
            } else if (k == 3) {
                std::string key = name_();
                if (s.chance(1, 6) && !names.empty()) { const std::string &f = names[s.range(0, (long)names.size() - 1)]; size_t dot = f.rfind('.'); std::string base = dot == std::string::npos ? f : f.substr(dot + 1); if (!base.empty()) key = base; }   // redefinition
                has_undef = false;
                auto v = gen_value();
                std::string src = v.first, val = v.second;
                // the stored value is the trimmed expansion; keep the source free of blanks that would
                // make "trim then expand" differ from "expand then trim"
                std::string tsrc = trim(src);
                if (tsrc != src) { src = tsrc; }
                val = trim(val);
                // expanding a reference to a value with leading/trailing blanks inside other text keeps them: recompute
                { std::string re; std::string t = src; size_t p = 0; re.clear();
                  while (p < t.size()) { if (t.compare(p, 2, "${") == 0) { size_t depth = 0, q = p; for (; q < t.size(); q++) { if (t.compare(q, 2, "${") == 0) { depth++; q++; } else if (t[q] == '}') { if (--depth == 0) break; } } std::string inner = t.substr(p + 2, q - p - 2);
                        std::string rv; if (inner.compare(0, 2, "${") == 0) { std::string n2 = inner.substr(2, inner.size() - 3); rv = cur[cur[n2]]; } else if (inner == "%VF_SET_ENV") rv = "env value-1"; else if (inner == "%VF_UNSET_ENV") rv = ""; else if (inner.compare(0, 6, "undef_") == 0) rv = "${" + inner + "}"; else rv = cur[inner];
                        re += rv; p = q + 1; } else re.push_back(t[p++]); }
                  val = re; }
                doc += pad(s) + key + pad(s) + std::string(1, sep) + pad(s) + src + pad(s) + "\n";
                if (has_undef) {
                    // not referenced later (its stored text is not pinned down); both outcomes for the undefined references are accepted
                    std::string dropped; for (size_t p2 = 0; p2 < val.size();) { if (val.compare(p2, 8, "${undef_") == 0) { size_t q2 = val.find('}', p2); p2 = q2 + 1; } else dropped.push_back(val[p2++]); }
                    alt[expect.size()] = trim(dropped);
                    expect.push_back({section.empty() ? key : section + "." + key, val});
                    cur.erase(section.empty() ? key : section + "." + key);
                    { const std::string full = section.empty() ? key : section + "." + key; names.erase(std::remove(names.begin(), names.end(), full), names.end()); }
                    has_undef = false;
                    continue;
                }
                define(section.empty() ? key : section + "." + key, val);
            } else if (k == 5) {
                // "pointer" key: its whole value is the name of another defined key (target of ${${ptr}})
                std::string key = "p" + ident(s, 3);
                std::string target = names[s.range(0, (long)names.size() - 1)];
                if (trim(target) != target || target.empty()) continue;
                doc += pad(s) + key + pad(s) + std::string(1, sep) + pad(s) + target + pad(s) + "\n";
                define(section.empty() ? key : section + "." + key, target);
            } else {
                // key with an empty value
                std::string key = ident(s);
                doc += pad(s) + key + pad(s) + std::string(1, sep) + pad(s) + "\n";
                define(section.empty() ? key : section + "." + key, "");
            }
        }
        return doc;
    }
};

Job gen_ini(Src &s, Ctx &c, bool *nontriv) {
    char sep = s.boolean() ? '=' : ':';
    bool usefile = s.chance(1, 3);
    IniGen g(s, sep);
    g.longnames = s.chance(1, 10);
    if (g.longnames) c.tag("ini_with_names_of_hundreds_of_characters");
    std::string doc;
    int nincl = 0;
    if (!usefile) doc = g.lines(c.tier ? 60 : 30, true);
    else {
        doc = g.lines(10, true);
        int k = (int)s.range(1, 2);
        for (int i = 0; i < k; i++) {
            // the include is spliced in textually: generate its lines in sequence with the main file's state
            std::string inc = g.lines(8, true);
            std::string nm = "inc" + std::to_string(i) + ".conf";
            write_file(slot_dir() + "/" + nm, inc);
            doc += std::string("@INCLUDE ") + pad(s) + (s.chance(1, 4) ? slot_dir() + "/" + nm : nm) + pad(s) + "\n";
            doc += g.lines(6, true);
            nincl++;
        }
        if (s.chance(1, 3)) {
            // a file that is included more than once: twice by the main file, by the main file and again by a file the main
            // file includes (a diamond - no cycle), or only through a nested include.  It holds plain literal entries; every
            // splice defines them again under the section in effect at that place.
            int pat = (int)s.range(0, 2), nk = (int)s.range(1, 3);
            std::vector<std::pair<std::string, std::string>> ck; std::string common;
            for (int q = 0; q < nk; q++) {
                std::string key = "c" + std::to_string(q) + ident(s, 3), v = IniGen::trim(g.text_piece());
                if (v.find('$') != std::string::npos) v = "x";
                common += key + std::string(1, sep) + v + "\n"; ck.push_back({key, v});
            }
            write_file(slot_dir() + "/common.def", common);
            auto splice = [&]() { for (auto &kv : ck) g.define(g.section.empty() ? kv.first : g.section + "." + kv.first, kv.second); };
            const std::string dir_common = "@INCLUDE common.def\n", dir_sub = "@INCLUDE sub.conf\n";
            if (pat == 0) { doc += dir_common; splice(); doc += g.lines(4, true); doc += dir_common; splice(); nincl += 2; }
            else {
                if (pat == 1) { doc += dir_common; splice(); doc += g.lines(3, true); nincl++; }
                std::string sub = g.lines(4, true); sub += dir_common; splice(); sub += g.lines(3, true);
                write_file(slot_dir() + "/sub.conf", sub);
                doc += dir_sub; nincl += 2;
            }
            doc += g.lines(4, true);
            c.tag(pat == 0 ? "ini_same_file_included_twice" : pat == 1 ? "ini_diamond_include" : "ini_nested_include");
        }
    }
    // the value text generator never emits '$' outside references and never a key that looks like a section header
    c.op("INI %s, sep '%c', %zu entries expected, %d refs (%d nested, %d env), %d sections, %d includes: %s", usefile ? "file" : "string", sep, g.expect.size(), g.nrefs, g.nnested, g.nenv, g.nsections, nincl, hexs(doc, 300).c_str());
    std::string mainpath = slot_dir() + "/main.conf";
    if (usefile) write_file(mainpath, doc);
    *nontriv = g.nsections > 0 && g.nrefs > 0;
    c.tag(usefile ? "ini_file" : "ini_string"); if (g.nnested) c.tag("ini_nested_reference"); if (nincl) c.tag("ini_with_include");
    std::vector<std::pair<std::string, std::string>> expect = g.expect;
    std::map<size_t, std::string> alt = g.alt;
    if (g.nundef) c.tag("ini_with_undefined_reference");
    if (g.nmany) c.tag("ini_with_a_value_of_20_to_70_distinct_references");
    return [usefile, mainpath, doc, sep, expect, alt](Ctx &c) {
        qlisttbl_t *t;
        if (usefile) t = qconfig_parse_file(nullptr, mainpath.c_str(), sep);
        else { char *b = new char[doc.size() + 1]; memcpy(b, doc.c_str(), doc.size() + 1); t = qconfig_parse_str(nullptr, b, sep); delete[] b; }
        if (!t) c.fail(FUNC, "conf:ini-null", "parser returned NULL for a well-formed document");
        struct G { qlisttbl_t *t; ~G() { qlisttbl_free(t); } } gg{t};
        size_t i = 0;
        for (qlisttbl_obj_t *o = t->first; o; o = o->next, i++) {
            if (i >= expect.size()) c.fail(FUNC, "conf:ini-extra", "parser delivered more than the %zu entries written (extra: %s=%s)", expect.size(), hexs(o->name, strlen(o->name)).c_str(), hexs(o->data, o->size).c_str());
            const auto &e = expect[i];
            if (e.first != o->name) c.fail(FUNC, "conf:ini-name", "entry %zu is named %s, the file says %s", i, hexs(o->name, strlen(o->name)).c_str(), hexs(e.first).c_str());
            auto al = alt.find(i);
            if (al != alt.end() && o->size == al->second.size() + 1 && memcmp(o->data, al->second.c_str(), o->size) == 0) continue;
            if (o->size != e.second.size() + 1 || memcmp(o->data, e.second.c_str(), o->size) != 0) c.fail(FUNC, "conf:ini-value", "entry %zu (%s) has value %s, the file says %s", i, hexs(e.first).c_str(), hexs(o->data, o->size, 60).c_str(), hexs(e.second, 60).c_str());
        }
        if (i != expect.size()) c.fail(FUNC, "conf:ini-missing", "parser delivered %zu of the %zu entries written (first missing: %s)", i, expect.size(), hexs(expect[i].first).c_str());
    };
}

// =====================================================================================  Apache style
enum { T_STR = 0, T_INT = 1, T_FLOAT = 2, T_BOOL = 3 };
struct OptDef { std::string name; int ntake; int argtype[5]; int deftype; bool is_section; uint64_t sectionid, sections; int cbkind; bool late = false; };   // cbkind 0 record, 1 NULL, 2 error, 3 loader (its callback registers the 'late' options)
struct Rec { int otype; uint64_t section, sections; int level; std::vector<std::string> argv; std::vector<std::string> parents; };
thread_local std::vector<Rec> g_rec;
bool g_cb_error_armed = false;

char *cb_record(qaconf_cbdata_t *d, void *ud) {
    (void)ud;
    Rec r; r.otype = d->otype; r.section = d->section; r.sections = d->sections; r.level = d->level;
    for (int i = 0; i < d->argc; i++) r.argv.push_back(d->argv[i]);
    for (qaconf_cbdata_t *p = d->parent; p; p = p->parent) r.parents.push_back(p->argc > 0 ? p->argv[0] : "?");
    g_rec.push_back(r);
    return nullptr;
}
char *cb_fail(qaconf_cbdata_t *d, void *ud) { cb_record(d, ud); return strdup("handler refused"); }

struct Node { int opt; std::string rname; std::vector<std::string> args; std::vector<Node> kids; bool unknown = false; int line_open = 0, line_close = 0; std::string close_name; };

struct ApGen {
    Src &s; Ctx &c;
    std::vector<OptDef> opts;
    int flags = 0; bool defh = false;
    std::string doc; int lineno = 0;
    std::vector<Rec> expect; int expect_count = 0;
    // violation injection
    int inject = 0;              // 0 none, else kind
    int inject_at = -1;          // directive ordinal at which to inject
    int ordinal = 0;
    bool injected = false; int error_line = 0; bool stop = false;
    int nested = 0, escapes = 0;
    bool has_loader = false, loaded = false; int late_used = 0;
    ApGen(Src &s_, Ctx &c_) : s(s_), c(c_) {}

    std::string randcase(const std::string &n) { if (!(flags & QAC_CASEINSENSITIVE)) return n; std::string r = n; for (auto &ch : r) if (s.boolean()) ch = (char)(isupper((unsigned char)ch) ? tolower(ch) : toupper(ch)); return r; }
    void make_table() {
        int nopt = (int)s.range(2, 7), nsec = (int)s.range(1, 3);
        for (int i = 0; i < nsec; i++) { OptDef o{}; o.name = "Sec" + std::string(1, (char)('A' + i)); o.ntake = (int)s.pick({2, 3, 1}); if (o.ntake == 2) o.ntake = 0xFF; o.is_section = true; o.sectionid = 2ull << i; o.sections = 0; o.cbkind = 0; opts.push_back(o); }
        for (int i = 0; i < nopt; i++) {
            OptDef o{}; o.name = "Opt" + std::to_string(i);
            int tk = (int)s.pick({2, 4, 3, 2, 1, 2});
            o.ntake = tk == 0 ? 0 : tk == 1 ? 1 : tk == 2 ? 2 : tk == 3 ? (int)s.range(3, 5) : tk == 4 ? (int)s.range(6, 8) : 0xFF;
            for (int j = 0; j < 5; j++) o.argtype[j] = s.chance(1, 2) ? (int)s.range(1, 3) : -1;    // -1: falls back to the default type
            o.deftype = (int)s.pick({3, 1, 1, 1});
            o.is_section = false; o.sectionid = 0;
            int sc = (int)s.pick({3, 2, 2});
            o.sections = sc == 0 ? 0 : sc == 1 ? 1 : (2ull << s.range(0, nsec - 1)) | (s.boolean() ? 1 : 0);
            o.cbkind = (int)s.pick({8, 1});
            opts.push_back(o);
        }
        if (s.chance(1, 4)) {
            // the "LoadModule" pattern: a directive whose callback registers further options while the file is being parsed
            OptDef l{}; l.name = "Load"; l.ntake = 0; for (int j = 0; j < 5; j++) l.argtype[j] = -1; l.deftype = 0; l.is_section = false; l.sectionid = 0; l.sections = 0; l.cbkind = 3; opts.push_back(l);
            int nlate = (int)s.range(1, 2);
            for (int i = 0; i < nlate; i++) { OptDef o{}; o.name = "Late" + std::to_string(i); o.ntake = (int)s.range(0, 2); for (int j = 0; j < 5; j++) o.argtype[j] = -1; o.deftype = (int)s.pick({3, 1, 1}); o.is_section = false; o.sectionid = 0; o.sections = 0; o.cbkind = 0; o.late = true; opts.push_back(o); }
            has_loader = true;
        }
        // sections may nest only where allowed
        for (int i = 0; i < nsec; i++) opts[(size_t)i].sections = s.chance(1, 2) ? 0 : (1 | (i > 0 ? (2ull << (i - 1)) : 0));
        flags = (int)s.range(0, 3);
        defh = s.chance(1, 3);
    }
    uint32_t take_bits(const OptDef &o) {
        uint32_t t = (uint32_t)o.ntake;
        for (int j = 0; j < 5; j++) { if (o.argtype[j] == T_INT) t |= QAC_A1_INT << j; else if (o.argtype[j] == T_FLOAT) t |= QAC_A1_FLOAT << j; else if (o.argtype[j] == T_BOOL) t |= QAC_A1_BOOL << j; }
        if (o.deftype == T_INT) t |= QAC_AA_INT; else if (o.deftype == T_FLOAT) t |= QAC_AA_FLOAT; else if (o.deftype == T_BOOL) t |= QAC_AA_BOOL;
        return t;
    }
    int type_of(const OptDef &o, int j) { return (j < 5 && o.argtype[j] >= 0) ? o.argtype[j] : o.deftype; }   // j 0-based argument index

    // value + rendering + normalised form for one argument of the given type
    void gen_arg(int type, std::string *raw, std::string *norm) {
        if (type == T_INT) { long v = s.range(-9999, 9999); *raw = std::to_string(v); *norm = *raw; }
        else if (type == T_FLOAT) { if (s.chance(1, 3)) { *raw = std::to_string(s.range(-999, 999)); } else { *raw = std::to_string(s.range(-999, 999)) + "." + std::to_string(s.range(0, 999)); } *norm = *raw; }
        else if (type == T_BOOL) { static const char *tv[] = {"true", "on", "yes", "1"}, *fv[] = {"false", "off", "no", "0"}; bool b = s.boolean(); std::string w = b ? tv[s.range(0, 3)] : fv[s.range(0, 3)]; for (auto &ch : w) if (s.chance(1, 3)) ch = (char)toupper((unsigned char)ch); *raw = w; *norm = b ? "1" : "0"; }
        else {
            static const char alpha[] = "abcXYZ019_-./:@=,;!$%&*()+[]{}|~^?";
            size_t n = (size_t)s.range(0, 8); std::string v;
            for (size_t i = 0; i < n; i++) { int k = (int)s.pick({10, 2, 1, 1, 1}); v.push_back(k == 0 ? alpha[s.range(0, (long)sizeof(alpha) - 2)] : k == 1 ? ' ' : k == 2 ? '"' : k == 3 ? '\'' : '\\'); }
            *raw = v; *norm = v;
        }
    }
    std::string render_arg(const std::string &v, bool last_in_section_tag) {
        bool can_bare = !v.empty() && v.find_first_of(" \t") == std::string::npos && v[0] != '"' && v[0] != '\'' && v[0] != '#' && v[0] != '<' && !(last_in_section_tag && v.back() == '>');
        if (can_bare && s.chance(2, 3)) return v;
        char q = s.boolean() ? '"' : '\'';
        std::string r(1, q);
        for (char ch : v) { if (ch == q || ch == '\\') { r.push_back('\\'); r.push_back(ch); escapes++; } else if (s.chance(1, 12) && ch != '\0') { r.push_back('\\'); r.push_back(ch); escapes++; } else r.push_back(ch); }
        r.push_back(q);
        return r;
    }
    void emit_noise() { int k = (int)s.pick({6, 1, 1}); if (k == 1) { doc += pad(s) + "\n"; lineno++; } else if (k == 2) { doc += pad(s) + "# " + ident(s) + " <x> \"\n"; lineno++; } }
    void emit_line(const std::string &l, int level) { emit_noise(); std::string ind; for (int i = 0; i < level && s.chance(3, 4); i++) ind += s.boolean() ? "  " : "\t"; doc += ind + l + pad(s) + "\n"; lineno++; }

    struct Scope { uint64_t section, sections; int level; std::vector<std::string> parents; };

    // candidates allowed in the scope
    bool allowed(const OptDef &o, const Scope &sc) { return o.sections == 0 || (o.sections & sc.section) != 0; }

    void gen_args_for(const OptDef &o, std::vector<std::string> *raw, std::vector<std::string> *norm, int nargs) {
        for (int j = 0; j < nargs; j++) { std::string r, n; gen_arg(type_of(o, j), &r, &n); raw->push_back(r); norm->push_back(n); }
    }
    std::string wrong_for(int type) { if (type == T_INT) return s.boolean() ? "1.5" : "12x"; if (type == T_FLOAT) return s.boolean() ? "1.2.3" : "abc"; return s.boolean() ? "maybe" : "2"; }

    // registered spelling of a (possibly case-randomised) section name
    std::string opts_name_of(const std::string &n) { for (auto &o : opts) if (strcasecmp(o.name.c_str(), n.c_str()) == 0) return o.name; return n; }

    void gen_block(const Scope &sc, int depth, int budget) {
        int n = (int)s.range(0, budget);
        for (int i = 0; i < n && !stop && !s.exhausted(); i++) {
            std::vector<size_t> cand;
            for (size_t k = 0; k < opts.size(); k++) if (allowed(opts[k], sc) && !(opts[k].is_section && depth >= 3) && !(opts[k].late && !loaded)) cand.push_back(k);
            if (has_loader && loaded && s.chance(1, 3)) { std::vector<size_t> lc; for (size_t k : cand) if (opts[k].late) lc.push_back(k); if (!lc.empty()) cand = lc; }   // make use of what was just registered
            bool do_inject = inject != 0 && !injected && ordinal >= inject_at;
            ordinal++;
            // unknown directive (valid only with a default handler or QAC_IGNOREUNKNOWN)
            bool can_unknown = defh || (flags & QAC_IGNOREUNKNOWN);
            if ((do_inject && inject == 4 && !can_unknown) || (!do_inject && can_unknown && s.chance(1, 8)) || cand.empty()) {
                if (cand.empty() && !can_unknown && !(do_inject && inject == 4)) return;
                std::string nm = "Unk" + ident(s, 3);
                std::vector<std::string> raw, norm; int na = (int)s.range(0, 3);
                for (int j = 0; j < na; j++) { std::string r, nn; gen_arg(T_STR, &r, &nn); raw.push_back(r); norm.push_back(nn); }
                std::string line = nm; for (auto &a : raw) line += (s.boolean() ? " " : "\t") + render_arg(a, false);
                emit_line(line, sc.level);
                if (!can_unknown) { injected = true; error_line = lineno; stop = true; return; }
                if (defh) { Rec r; r.otype = QAC_OTYPE_OPTION; r.section = sc.section; r.sections = sc.sections; r.level = sc.level; r.argv.push_back(nm); for (auto &a : norm) r.argv.push_back(a); r.parents = sc.parents; expect.push_back(r); }
                expect_count++;
                continue;
            }
            if (do_inject && inject == 11) {
                // a close tag where no such section is open: at the root, or naming another section / an unknown name inside one
                std::vector<std::string> names;
                for (auto &o : opts) if (o.is_section && (sc.parents.empty() || o.name != opts_name_of(sc.parents[0]))) names.push_back(o.name);
                names.push_back("Unk" + ident(s, 3));
                emit_line("</" + names[(size_t)s.range(0, (long)names.size() - 1)] + ">", sc.level);
                injected = true; error_line = lineno; stop = true; return;
            }
            size_t oi = cand[s.range(0, (long)cand.size() - 1)];
            if (do_inject && inject == 3) {
                // scope violation: pick an option that is NOT allowed here, if there is one
                std::vector<size_t> bad; for (size_t k = 0; k < opts.size(); k++) if (!allowed(opts[k], sc) && !opts[k].is_section) bad.push_back(k);
                if (!bad.empty()) oi = bad[s.range(0, (long)bad.size() - 1)]; else do_inject = false;
            }
            const OptDef &o = opts[oi];
            int nargs = o.ntake == 0xFF ? (int)s.range(0, 9) : o.ntake;
            bool count_bad = false, type_bad = false;
            if (do_inject && inject == 1 && o.ntake != 0xFF) { nargs = o.ntake + (o.ntake > 0 && s.boolean() ? -1 : 1); count_bad = true; }
            std::vector<std::string> raw, norm;
            gen_args_for(o, &raw, &norm, nargs);
            if (do_inject && inject == 2) { std::vector<int> typed; for (int j = 0; j < nargs; j++) if (type_of(o, j) != T_STR) typed.push_back(j); if (!typed.empty()) { int j = typed[s.range(0, (long)typed.size() - 1)]; raw[(size_t)j] = wrong_for(type_of(o, j)); type_bad = true; if (j >= 5) c.tag("apache_type_violation_beyond_5th_argument"); } }
            bool quote_bad = do_inject && inject == 7;
            std::string nm = randcase(o.name);
            std::string line = nm;
            for (size_t j = 0; j < raw.size(); j++) line += (s.boolean() ? " " : "\t") + render_arg(raw[j], o.is_section && j + 1 == raw.size());
            if (quote_bad) line += std::string(" ") + (s.boolean() ? "\"" : "'") + "open" ;
            if (o.is_section) {
                bool nogt = do_inject && inject == 6;
                emit_line("<" + line + (nogt ? "" : ">"), sc.level);
                if (nogt || quote_bad) { injected = true; error_line = lineno; stop = true; return; }
                if (do_inject && inject == 3 && !allowed(o, sc)) { injected = true; error_line = lineno; stop = true; return; }
                if (count_bad || type_bad) { injected = true; error_line = lineno; stop = true; return; }
                Rec r; r.otype = QAC_OTYPE_SECTIONOPEN; r.section = sc.section; r.sections = sc.sections; r.level = sc.level; r.argv.push_back(nm); for (auto &a : norm) r.argv.push_back(a); r.parents = sc.parents;
                expect.push_back(r); expect_count++;
                Scope in; in.section = o.sectionid; in.sections = sc.sections | o.sectionid; in.level = sc.level + 1; in.parents = sc.parents; in.parents.insert(in.parents.begin(), nm);
                nested++;
                gen_block(in, depth + 1, budget > 2 ? budget - 2 : 1);
                if (stop) return;
                bool do_inj2 = inject != 0 && !injected && ordinal >= inject_at && (inject == 5 || inject == 8 || inject == 10);
                if (do_inj2 && inject == 5) { injected = true; stop = true; error_line = -1; return; }          // section never closed: error at end of file
                std::string cn = randcase(o.name);
                if (do_inj2 && inject == 10 && (flags & QAC_CASEINSENSITIVE)) inject = 8;
                if (do_inj2 && inject == 8) { emit_line("</" + cn + "x>", sc.level); injected = true; error_line = lineno; stop = true; return; }
                if (do_inj2 && inject == 10) {
                    // close tag that differs from the open tag in letter case only, parser case-sensitive
                    size_t k = (size_t)s.range(0, (long)cn.size() - 1); cn[k] = (char)(isupper((unsigned char)cn[k]) ? tolower(cn[k]) : toupper(cn[k]));
                    emit_line("</" + cn + ">", sc.level); injected = true; error_line = lineno; stop = true; return;
                }
                emit_line("</" + cn + ">", sc.level);
                Rec rc = r; rc.otype = QAC_OTYPE_SECTIONCLOSE; expect.push_back(rc); expect_count++;
            } else {
                emit_line(line, sc.level);
                if (quote_bad) { injected = true; error_line = lineno; stop = true; return; }
                if (do_inject && inject == 3 && !allowed(o, sc)) { injected = true; error_line = lineno; stop = true; return; }
                if (count_bad || type_bad) { injected = true; error_line = lineno; stop = true; return; }
                if (o.cbkind == 3) loaded = true;
                if (o.late) late_used++;
                bool has_cb = o.cbkind != 1 || defh;
                if (has_cb) { Rec r; r.otype = QAC_OTYPE_OPTION; r.section = sc.section; r.sections = sc.sections; r.level = sc.level; r.argv.push_back(nm); for (auto &a : norm) r.argv.push_back(a); r.parents = sc.parents; expect.push_back(r); }
                if (do_inject && inject == 9 && o.cbkind == 0) { g_cb_error_armed = true; injected = true; error_line = lineno; stop = true; return; }
                expect_count++;
            }
        }
    }
};

struct UserData { int remaining; qaconf_t *q; qaconf_option_t *extra; bool loaded; };
char *cb_maybe_fail(qaconf_cbdata_t *d, void *ud) {
    cb_record(d, ud);
    UserData *u = (UserData *)ud;
    if (u && u->remaining >= 0) { if (u->remaining == 0) { u->remaining = -1; return strdup("handler refused"); } u->remaining--; }
    return nullptr;
}
// the loader directive: registers the late options with the parser that is in the middle of parse()
char *cb_loader(qaconf_cbdata_t *d, void *ud) {
    char *r = cb_maybe_fail(d, ud);
    UserData *u = (UserData *)ud;
    if (!r && u && u->extra && !u->loaded && d->otype == QAC_OTYPE_OPTION) { u->q->addoptions(u->q, u->extra); u->loaded = true; }
    return r;
}

Job gen_apache(Src &s, Ctx &c, bool *nontriv) {
    ApGen g(s, c);
    g.make_table();
    bool invalid = s.chance(2, 5);
    if (invalid) { g.inject = (int)s.range(1, 11); g.inject_at = (int)s.range(0, 6); }
    ApGen::Scope root; root.section = QAC_SECTION_ROOT; root.sections = QAC_SECTION_ROOT; root.level = 0;
    g_cb_error_armed = false;
    g.gen_block(root, 0, c.tier ? 14 : 8);
    if (g.inject == 5 && g.injected) g.error_line = -1;
    // trailing noise
    if (!g.injected || g.inject != 5) { if (s.boolean()) { g.doc += "# end\n"; g.lineno++; } }
    bool expect_error = g.injected;
    int fail_after = -1;
    if (g.inject == 9 && g.injected) fail_after = (int)g.expect.size() - 1;      // the callback of the last recorded directive refuses
    std::string path = slot_dir() + "/apache.conf";
    c.op("Apache doc: %zu options, flags %d%s, %s, %d directive line(s), %zu callbacks expected: %s", g.opts.size(), g.flags, g.defh ? "+defhandler" : "", expect_error ? strf("violation kind %d injected at line %d", g.inject, g.error_line).c_str() : "valid", g.expect_count, g.expect.size(), hexs(g.doc, 400).c_str());
    bool reload = s.chance(1, 3);
    // a configuration reload: the same parser object parses the same path a second time; the
    // first content is a few comment/blank lines (a valid document without directives)
    std::string pre; if (reload) { int k = (int)s.range(1, 6); for (int i = 0; i < k; i++) pre += (i & 1) ? "\n" : "# earlier version of this file\n"; c.tag("apache_second_parse_with_same_object"); }
    *nontriv = (g.nested > 0 && g.escapes > 0) || expect_error;
    c.tag(expect_error ? strf("apache_invalid_kind_%d", g.inject).c_str() : "apache_valid");
    if (g.nested) c.tag("apache_with_nested_section");
    if (g.late_used) c.tag("apache_with_options_registered_during_parse");
    // everything the run needs, by value
    struct Plan { std::vector<OptDef> opts; std::vector<uint32_t> take; int flags; bool defh; std::string doc, pre, path; std::vector<Rec> expect; int expect_count, fail_after, inject, error_line, lineno; bool expect_error, reload; };
    auto pl = std::make_shared<Plan>();
    pl->opts = g.opts; for (auto &o : g.opts) pl->take.push_back(g.take_bits(o));
    pl->flags = g.flags; pl->defh = g.defh; pl->doc = g.doc; pl->pre = pre; pl->path = path; pl->expect = g.expect; pl->expect_count = g.expect_count; pl->fail_after = fail_after;
    pl->inject = g.inject; pl->error_line = g.error_line; pl->lineno = g.lineno; pl->expect_error = expect_error; pl->reload = reload;
    return [pl](Ctx &c) {
        const Plan &P = *pl;
        std::vector<qaconf_option_t> tbl, extra;
        for (size_t k = 0; k < P.opts.size(); k++) { const OptDef &o = P.opts[k]; qaconf_option_t q; q.name = (char *)o.name.c_str(); q.take = P.take[k]; q.cb = o.cbkind == 1 ? nullptr : o.cbkind == 3 ? cb_loader : cb_maybe_fail; q.sectionid = o.sectionid; q.sections = o.sections; (o.late ? extra : tbl).push_back(q); }
        qaconf_option_t end = QAC_OPTION_END; tbl.push_back(end); extra.push_back(end);
        write_file(P.path, P.doc);
        g_rec.clear();
        qaconf_t *q = qaconf();
        if (!q) c.fail(FUNC, "conf:qaconf-ctor", "qaconf() returned NULL");
        struct G { qaconf_t *q; ~G() { q->free(q); } } gg{q};
        UserData ud{P.fail_after, q, extra.size() > 1 ? extra.data() : nullptr, false};
        q->addoptions(q, tbl.data());
        q->setuserdata(q, &ud);
        if (P.defh) q->setdefhandler(q, cb_maybe_fail);
        if (P.reload) {
            write_file(P.path, P.pre);
            int n0 = q->parse(q, P.path.c_str(), (uint8_t)P.flags);
            if (n0 != 0) c.fail(FUNC, "conf:apache-count", "a file of comments and blank lines returned %d", n0);
            q->reseterror(q);
            g_rec.clear();
            write_file(P.path, P.doc);
        }
        dirty_stack();
        int n = q->parse(q, P.path.c_str(), (uint8_t)P.flags);
        const char *em = q->errmsg(q);
        std::string emsg = em ? em : "";
        if (!P.expect_error && n < 0) c.fail(FUNC, "conf:apache-rejected-valid", "parse returned %d for a valid document with %d directive lines (error: %s)", n, P.expect_count, emsg.c_str());
        // compare the callback stream
        size_t ncmp = P.expect.size();
        for (size_t i = 0; i < ncmp && i < g_rec.size(); i++) {
            const Rec &a = g_rec[i], &e = P.expect[i];
            std::string what;
            if (a.otype != e.otype) what = strf("otype %d, expected %d", a.otype, e.otype);
            else if (a.level != e.level) what = strf("level %d, expected %d", a.level, e.level);
            else if (a.section != e.section || a.sections != e.sections) what = strf("section/sections %llu/%llu, expected %llu/%llu", (unsigned long long)a.section, (unsigned long long)a.sections, (unsigned long long)e.section, (unsigned long long)e.sections);
            else if (a.parents.size() != e.parents.size()) what = strf("parent chain of length %zu, expected %zu", a.parents.size(), e.parents.size());
            else if (a.argv.size() != e.argv.size()) what = strf("argc %zu, expected %zu", a.argv.size(), e.argv.size());
            else {
                for (size_t j = 0; j < e.parents.size() && what.empty(); j++) if (a.parents[j] != e.parents[j]) what = "parent chain " + hexs(a.parents[j]) + ", expected " + hexs(e.parents[j]);
                for (size_t j = 0; j < e.argv.size() && what.empty(); j++) if (a.argv[j] != e.argv[j]) what = strf("argv[%zu] = %s, expected %s", j, hexs(a.argv[j], 40).c_str(), hexs(e.argv[j], 40).c_str());
            }
            if (!what.empty()) c.fail(FUNC, "conf:apache-callback", "callback %zu (%s): %s", i, e.argv.empty() ? "?" : e.argv[0].c_str(), what.c_str());
        }
        if (g_rec.size() != P.expect.size()) c.fail(FUNC, "conf:apache-callback-count", "%zu callbacks were made, the document has %zu directives with a handler%s", g_rec.size(), P.expect.size(), P.expect_error ? " before the violation" : "");
        if (!P.expect_error) {
            if (n != P.expect_count) c.fail(FUNC, n < 0 ? "conf:apache-rejected-valid" : "conf:apache-count", "parse returned %d for a valid document with %d directive lines (error: %s)", n, P.expect_count, emsg.c_str());
        } else {
            if (n != -1) c.fail(FUNC, "conf:apache-accepted-invalid", "parse returned %d for a document with an injected violation (kind %d at line %d)", n, P.inject, P.error_line);
            int line = P.error_line == -1 ? P.lineno : P.error_line;
            std::string want = P.path + ":" + std::to_string(line) + " ";
            if (emsg.find(want) == std::string::npos) c.fail(FUNC, "conf:apache-errline", "error message '%s' does not name %s (violation kind %d)", emsg.c_str(), want.c_str(), P.inject);
        }
    };
}
}  // namespace

static bool g_conc_only = false;
bool vf_configure(Ctx &c) { g_errno_repoison = 1;
    if (c.mode != "C20") return false;
    c.deciding = FUNC | CRASH | HANG; c.noteonly = MEM | LEAK;
    const char *td = getenv("TMPDIR");
    g_dir = std::string(td ? td : "/dev/shm") + "/vf-conf-" + std::to_string(getpid());
    mkdir(g_dir.c_str(), 0700);
    for (int i = 0; i < 4; i++) mkdir((g_dir + "/s" + std::to_string(i)).c_str(), 0700);
    atexit([] { for (int i = 0; i < 4; i++) { std::string d = g_dir + "/s" + std::to_string(i); for (const char *f : {"/inc0.conf", "/inc1.conf", "/main.conf", "/apache.conf"}) unlink((d + f).c_str()); rmdir(d.c_str()); } rmdir(g_dir.c_str()); });
    setenv("VF_SET_ENV", "env value-1", 1);
    unsetenv("VF_UNSET_ENV");
    g_conc_only = getenv("VF_CONC_ONLY") != nullptr;
    return true;
}

void run_case(Src &s, Ctx &c) {
    bool nt = false;
    if (g_conc_only || s.chance(1, 20)) {
        // concurrent callers: 2..4 threads, each parsing its own documents with its own parser objects
        size_t nth = (size_t)s.range(2, 4); int rounds = (int)s.range(3, 20);
        std::vector<std::vector<Job>> jobs(nth);
        for (size_t i = 0; i < nth; i++) { g_slot = (int)i; c.op("thread %zu:", i); jobs[i].push_back(s.pick({2, 3}) == 0 ? gen_ini(s, c, &nt) : gen_apache(s, c, &nt)); }
        g_slot = 0;
        c.op("the %zu threads parse their documents %d times concurrently", nth, rounds);
        run_concurrent(c, jobs, rounds, "conf");
        c.check_san("parsers called from several threads");
        c.nontrivial = true; c.tag("concurrent_callers");
        return;
    }
    g_slot = 0;
    Job j = s.pick({2, 3}) == 0 ? gen_ini(s, c, &nt) : gen_apache(s, c, &nt);
    j(c);
    c.nontrivial = nt;
    c.check_san("parser");
}
