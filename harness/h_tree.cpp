// h_tree.cpp - qtreetbl harness.  Modes:
//   C01 exact sorted map        C02 LLRB validity + lookup cost     C03 traversal
//   C04 nearest-key search      C11 memory safety / leaks (tree share)   C12 copies (tree share)
// One generated history is decoded from the choice source and applied to the real table and
// to a std::map under the same ordering; see DESIGN.md section 3 (C01..C04, C11, C12).
#include "common/vf.hpp"
#include <csetjmp>
#include <csignal>
#include <cmath>
#include <cerrno>
#include <algorithm>
extern "C" {
#include "qlibc.h"
extern uint32_t _q_treetbl_flip_color_cnt, _q_treetbl_rotate_left_cnt, _q_treetbl_rotate_right_cnt;
}
#include "common/via_members.hpp"   // after the prototypes: container calls go through the member pointers in half of the cases
using namespace vf;

const char *vf_harness_name = "tree";

// ------------------------------------------------------------------ comparators
static int g_cmpkind = 0;
static long g_cmp_count = 0, g_cmp_budget = 0;
static jmp_buf g_cmp_jb;
static bool g_cmp_jb_armed = false;

static int cmp_bytes(const void *a, size_t an, const void *b, size_t bn) {
    size_t m = an < bn ? an : bn;
    int c = m ? memcmp(a, b, m) : 0;
    if (c != 0) return c < 0 ? -1 : 1;
    return an == bn ? 0 : (an < bn ? -1 : 1);
}
static uint32_t le32(const void *p, size_t n) { uint32_t v = 0; const uint8_t *b = (const uint8_t *)p; for (size_t i = 0; i < 4 && i < n; i++) v |= (uint32_t)b[i] << (8 * i); return v; }
static int cmp_kind(int kind, const void *a, size_t an, const void *b, size_t bn) {
    switch (kind) {
        case 0: return cmp_bytes(a, an, b, bn);
        case 1: return -cmp_bytes(a, an, b, bn);
        case 2: if (an != bn) return an < bn ? -1 : 1; return cmp_bytes(a, an, b, bn);
        case 3: {
            size_t m = an < bn ? an : bn; const uint8_t *x = (const uint8_t *)a, *y = (const uint8_t *)b;
            for (size_t i = 0; i < m; i++) { int cx = x[i], cy = y[i]; if (cx >= 'A' && cx <= 'Z') cx += 32; if (cy >= 'A' && cy <= 'Z') cy += 32; if (cx != cy) return cx < cy ? -1 : 1; }
            return an == bn ? 0 : (an < bn ? -1 : 1);
        }
        default: { uint32_t x = le32(a, an), y = le32(b, bn); return x == y ? 0 : (x < y ? -1 : 1); }
    }
}
// the comparator handed to the library: counts, and bails out of a call that exceeds its
// deterministic progress budget (only armed around lock-free calls that own no allocation)
static int user_cmp(const void *a, size_t an, const void *b, size_t bn) {
    g_cmp_count++;
    if (g_cmp_jb_armed && g_cmp_budget > 0 && g_cmp_count > g_cmp_budget) { g_cmp_jb_armed = false; longjmp(g_cmp_jb, 1); }
    return cmp_kind(g_cmpkind, a, an, b, bn);
}
struct KeyLess { bool operator()(const std::string &a, const std::string &b) const { return cmp_kind(g_cmpkind, a.data(), a.size(), b.data(), b.size()) < 0; } };

struct Entry { std::set<std::string> variants; std::string val; bool hasval; };
typedef std::map<std::string, Entry, KeyLess> Model;

// ------------------------------------------------------------------ independent LLRB checker
struct Shape { bool ok = true; const char *why = ""; size_t count = 0; int height = 0; };
static int shape_rec(qtreetbl_obj_t *o, Shape &s, qtreetbl_obj_t **prev, int depth, size_t limit) {
    if (!o) return 1;
    if (!s.ok) return 0;
    if (++s.count > limit) { s.ok = false; s.why = "more nodes reachable than keys stored (cycle or duplicate link)"; return 0; }
    if (depth > s.height) s.height = depth;
    int lb = shape_rec(o->left, s, prev, depth + 1, limit);
    if (!s.ok) return 0;
    if (*prev && cmp_kind(g_cmpkind, (*prev)->name, (*prev)->namesize, o->name, o->namesize) >= 0) { s.ok = false; s.why = "in-order keys not strictly increasing"; return 0; }
    *prev = o;
    int rb = shape_rec(o->right, s, prev, depth + 1, limit);
    if (!s.ok) return 0;
    bool lr = o->left && o->left->red, rr = o->right && o->right->red;
    if (o->red && (lr || rr)) { s.ok = false; s.why = "red node with a red child"; return 0; }
    if (rr && !lr) { s.ok = false; s.why = "right-leaning lone red link"; return 0; }
    if (lb != rb) { s.ok = false; s.why = "black height differs between subtrees"; return 0; }
    if (!o->name || o->namesize == 0) { s.ok = false; s.why = "node without a key"; return 0; }
    return lb + (o->red ? 0 : 1);
}
static Shape check_shape(qtreetbl_t *t) {
    Shape s;
    if (t->root && t->root->red) { s.ok = false; s.why = "red root"; return s; }
    qtreetbl_obj_t *prev = nullptr;
    shape_rec(t->root, s, &prev, 1, t->num + 1);
    return s;
}
// colour/shape rules only (what qtreetbl_check looks at), for the two-way agreement test
static bool shape_rules_only(qtreetbl_obj_t *o, int *bh) {
    if (!o) { *bh = 1; return true; }
    int l, r;
    if (!shape_rules_only(o->left, &l) || !shape_rules_only(o->right, &r)) return false;
    bool lr = o->left && o->left->red, rr = o->right && o->right->red;
    if (o->red && (lr || rr)) return false;
    if (rr && !lr) return false;
    if (l != r) return false;
    *bh = l + (o->red ? 0 : 1);
    return true;
}

// ------------------------------------------------------------------ the case
namespace {
struct Retained { void *p; std::string expect; const char *what; };

struct Run {
    Src &s; Ctx &c;
    bool scribble, retain;          // C12 behaviour
    qtreetbl_t *t = nullptr;
    Model m;
    std::vector<std::string> universe;   // key bytes as the library sees them
    bool strkeys = true;
    std::vector<Retained> kept;
    uint64_t obs = 0xcbf29ce484222325ull;      // hash of everything observed (C12 differential)
    // non-triviality bookkeeping
    int rm_twochild = 0, reput = 0, rm_absent = 0, rm_restructure = 0;
    long epoch_adv = 0; bool walked = false, changed_after_walk = false, rootchange_after_walk = false, nt_near = false;
    bool unfinished = false;
    bool lookups_in_walk = false; long lookups_done = 0;
    int copies_outlived = 0;
    size_t maxn = 0;
    long walk_budget = 40000;
    int put_failed_by_fault = 0;
    int poison = 0;                 // errno value on entry to library calls: results must not depend on it

    Run(Src &s_, Ctx &c_, bool scr, bool ret) : s(s_), c(c_), scribble(scr), retain(ret) {}
    ~Run() {
        if (t) { qtreetbl_free(t); t = nullptr; }
        for (auto &r : kept) if (r.p && vf_ledger_has(r.p)) free(r.p);
    }
    void see(const void *p, size_t n) { obs = fnv64(p, n, obs); obs = fnv64(&n, sizeof n, obs); }
    void seei(long v) { obs = fnv64(&v, sizeof v, obs); }

    // hand a returned copy back: retained until the end (C12) or freed at once
    void give_back(void *p, const std::string &expect, const char *what) {
        if (!p) return;
        if (!vf_ledger_has(p)) c.fail(COPY, "tree:copy-not-own-allocation", "%s returned a pointer that is not a live allocation of its own", what);
        if (retain) kept.push_back(Retained{p, expect, what});
        else free(p);
    }
    void verify_kept(bool final) {
        for (auto &r : kept) {
            if (!r.p) continue;
            if (!vf_ledger_has(r.p)) { r.p = nullptr; c.fail(COPY, "tree:copy-freed-by-container", "block returned by %s was freed by the container (not an independent copy)", r.what); }
            if (memcmp(r.p, r.expect.data(), r.expect.size()) != 0) c.fail(COPY, "tree:copy-changed", "bytes returned by %s changed after later operations", r.what);
            if (final) { free(r.p); r.p = nullptr; }
        }
        if (final) kept.clear();
    }

    std::string gen_key() {
        std::string k;
        int klass = s.pick({5, 3, 1, 1});
        size_t len = klass == 0 ? (size_t)s.range(1, 3) : klass == 1 ? (size_t)s.range(1, 8) : klass == 2 ? (size_t)s.range(8, 40) : (size_t)s.range(1, 4);
        if (klass == 2 && s.chance(1, 8)) { static const size_t edge[] = {64, 128, 256, 1024}; len = edge[s.range(0, 3)] + (size_t)s.range(0, 2) - 1; }   // long keys around power-of-two sizes
        static const char alpha[] = "abAB01z";
        for (size_t i = 0; i < len; i++) {
            if (strkeys) { if (klass == 3) { int v = (int)s.range(1, 255); k.push_back((char)v); } else k.push_back(alpha[s.range(0, 6)]); }
            else { if (klass == 3 || s.chance(1, 4)) k.push_back((char)s.u8()); else k.push_back((char)s.range(0, 3)); }
        }
        if (strkeys) k.push_back('\0');          // namesize includes the terminating NUL
        return k;
    }
    std::string gen_val(bool str) {
        int klass = s.pick({6, 3, 1});
        size_t len = klass == 0 ? (size_t)s.range(1, 8) : klass == 1 ? (size_t)s.range(9, 64) : (size_t)s.range(65, 300);
        if (s.chance(1, 40)) { static const size_t edge[] = {128, 256, 512, 1024, 4096}; len = edge[s.range(0, 4)] + (size_t)s.range(0, 2) - 1; }
        int fill = (int)s.range(0, 3);
        uint32_t x = (uint32_t)s.u8() * 2654435761u + 12345u;
        std::string v;
        for (size_t i = 0; i < len; i++) {
            uint8_t b;
            switch (fill) { case 0: b = 0; break; case 1: b = 0xff; break; case 2: x = x * 1103515245u + 12345u; b = (uint8_t)(x >> 16); break; default: x = x * 1103515245u + 12345u; b = (uint8_t)('a' + (x >> 16) % 26); }
            if (str && b == 0) b = 'n';
            v.push_back((char)b);
        }
        if (fill == 3 && !str && len > 2 && (x & 1)) v[len - 1] = 0;   // trailing NUL
        return v;
    }

    qtreetbl_obj_t *impl_find(const std::string &k) {
        qtreetbl_obj_t *o = t->root; size_t guard = 0;
        while (o && guard++ < 100000) { int r = cmp_kind(g_cmpkind, k.data(), k.size(), o->name, o->namesize); if (r == 0) return o; o = r < 0 ? o->left : o->right; }
        return nullptr;
    }

    void check_size(const char *after) {
        size_t n = qtreetbl_size(t);
        if (n != m.size()) c.fail(FUNC, "tree:size", "size()=%zu but the model holds %zu keys after %s", n, m.size(), after);
    }
    void check_shape_now(const char *after) {
        Shape sh = check_shape(t);
        int lib = qtreetbl_check(t);
        if (!sh.ok) c.fail(SHAPE, "tree:shape", "after %s: %s (qtreetbl_check()=%d)", after, sh.why, lib);
        int bh; bool rules = !(t->root && t->root->red) && shape_rules_only(t->root, &bh);
        if (rules != (lib == 0)) c.fail(SHAPE, "tree:selfcheck-disagrees", "after %s: independent checker says %s, qtreetbl_check()=%d", after, rules ? "valid" : "invalid", lib);
        if (sh.count != t->num) c.fail(SHAPE, "tree:count", "after %s: %zu nodes reachable but num=%zu", after, sh.count, t->num);
        size_t n = sh.count;
        if (n > 0) { int bound = (int)floor(2.0 * log2((double)n + 1.0) + 1e-9); if (sh.height > bound) c.fail(SHAPE, "tree:height", "after %s: height %d exceeds 2*log2(n+1)=%d for n=%zu", after, sh.height, bound, n); }
    }
    bool key_ok(const Entry &e, const void *name, size_t namesize) { return e.variants.count(std::string((const char *)name, namesize)) > 0; }

    // --- operations -------------------------------------------------------------------
    void do_put(const std::string &k) {
        int api = strkeys ? (int)s.pick({4, 3, 1, 2}) : 3;   // put, putstr, putstrf, putobj
        bool present = m.count(k) > 0;
        // a NULL value is only generated for a fresh key (the shape the test-suite uses);
        // "replace by NULL" keeps the old value and is not covered by any documentation
        bool nullval = (api == 0 || api == 3) && s.chance(1, 24) && !present;
        std::string v = nullval ? std::string() : gen_val(api == 1 || api == 2);
        if (api == 2) {
            v = v.substr(0, 20);
            if (s.chance(1, 8)) {   // formatted length exactly around the 1024 * 2^k sizes of the library's formatting buffer
                static const size_t edge[] = {16, 32, 64, 128, 256, 512, 1024, 1024, 2048, 4096, 8192};
                size_t len = edge[s.range(0, 10)] + (size_t)s.range(0, 3) - 2;
                v.clear(); uint32_t x = (uint32_t)s.u8() + 5; for (size_t i = 0; i < len; i++) { x = x * 1103515245u + 12345u; v.push_back((char)('a' + (x >> 16) % 26)); }
            }
        }
        Buf kb(k), vb(v);
        Buf *vs = (api == 1 || api == 2) ? Buf::cstr(v) : nullptr;
        qtreetbl_obj_t *rootb = t->root;
        bool ok;
        // C02 speaks about failed operations too: now and then one allocation of the put fails
        bool inject = c.mode == "C02" && s.chance(1, 12);
        if (inject) arm_fail(s.range(1, 3));
        errno = poison;
        switch (api) {
            case 0: ok = qtreetbl_put(t, kb.c(), nullval ? nullptr : vb.p, nullval ? 0 : vb.n); break;
            case 1: ok = qtreetbl_putstr(t, kb.c(), vs->c()); break;
            case 2: ok = qtreetbl_putstrf(t, kb.c(), "%s", vs->c()); break;
            default: ok = qtreetbl_putobj(t, kb.p, kb.n, nullval ? nullptr : vb.p, nullval ? 0 : vb.n);
        }
        long injected = inject ? vf_failed_count : 0;
        if (inject) disarm_fail();
        if (scribble) { kb.scribble(); vb.scribble(); if (vs) vs->scribble(); }
        delete vs;
        if (injected && !ok) { c.op("put(%s) with an allocation failing -> refused%s", hexs(k, 12).c_str(), present ? " [replace]" : ""); put_failed_by_fault++; return; }   // shape is checked by the caller, contents by the next comparison
        std::string stored = (api == 1 || api == 2) ? v + std::string(1, '\0') : v;
        c.op("%s(%s,%s)%s", api == 0 ? "put" : api == 1 ? "putstr" : api == 2 ? "putstrf" : "putobj", hexs(k, 12).c_str(), nullval ? "NULL" : hexs(stored, 8).c_str(), present ? " [replace]" : "");
        seei(ok);
        if (!ok) c.fail(FUNC, "tree:put-failed", "put of key %s returned false (errno=%d)", hexs(k).c_str(), errno);
        if (present) { reput++; Entry &e = m.find(k)->second; e.val = stored; e.hasval = !nullval; e.variants.insert(k); }
        else { Entry e; e.variants.insert(k); e.val = stored; e.hasval = !nullval; m.emplace(k, e); }
        if (walked) { if (!present) changed_after_walk = true; if (t->root != rootb) rootchange_after_walk = true; }
        if (m.size() > maxn) maxn = m.size();
    }
    // a put whose data pointer lies inside the table's own copy of the value stored under that key
    void do_put_alias(const std::string &k) {
        auto it = m.find(k);
        if (it == m.end() || !it->second.hasval || it->second.val.size() < 2) { do_put(k); return; }
        Buf kb(k);
        size_t sz = 0; char *p = (char *)qtreetbl_getobj(t, kb.p, kb.n, &sz, false);
        if (!p || sz != it->second.val.size()) c.fail(FUNC, "tree:get-missing", "getobj(%s,newmem=false) before an aliasing put returned %s", hexs(k).c_str(), p ? "a wrong size" : "NULL");
        size_t off = (size_t)s.range(0, (long)sz - 1);
        std::string nv = it->second.val.substr(off);
        qtreetbl_obj_t *rootb = t->root;
        errno = poison;
        bool ok = qtreetbl_putobj(t, kb.p, kb.n, p + off, sz - off);
        c.op("putobj(%s, pointer %zu bytes into the stored value of the same key, %zu bytes) [replace]", hexs(k, 12).c_str(), off, sz - off);
        if (!ok) c.fail(FUNC, "tree:put-failed", "put of key %s with data inside the table's own value buffer returned false (errno=%d)", hexs(k).c_str(), errno);
        reput++; Entry &e = m.find(k)->second; e.val = nv; e.variants.insert(k);
        if (walked && t->root != rootb) rootchange_after_walk = true;
        full_compare("aliasing put");
    }
    // calls the library documents as refused (EINVAL): they must fail, say so, and change nothing
    void do_refused(const std::string &k) {
        int kind = (int)s.range(0, 5);
        Buf kb(k); std::string v = gen_val(false); Buf vb(v);
        qtreetbl_obj_t *rootb = t->root;
        errno = poison; bool ok; const char *what;
        switch (kind) {
            case 0: ok = qtreetbl_putobj(t, nullptr, kb.n, vb.p, vb.n); what = "putobj(NULL name)"; break;
            case 1: ok = qtreetbl_putobj(t, kb.p, 0, vb.p, vb.n); what = "putobj(name size 0)"; break;
            case 2: { size_t sz = 0; ok = qtreetbl_getobj(t, nullptr, kb.n, &sz, s.boolean()) != nullptr; what = "getobj(NULL name)"; break; }
            case 3: { size_t sz = 0; ok = qtreetbl_getobj(t, kb.p, 0, &sz, s.boolean()) != nullptr; what = "getobj(name size 0)"; break; }
            case 4: ok = qtreetbl_removeobj(t, nullptr, kb.n); what = "removeobj(NULL name)"; break;
            default: ok = qtreetbl_getnext(t, nullptr, s.boolean()); what = "getnext(NULL obj)";
        }
        int e = errno;
        c.op("refused call %s, key %s [%s]", what, hexs(k, 12).c_str(), m.count(k) ? "present" : "absent");
        if (ok) c.fail(FUNC, "tree:invalid-accepted", "%s succeeded, documented EINVAL", what);
        if (e != EINVAL) c.fail(FUNC, "tree:invalid-errno", "%s: errno=%d, documented EINVAL", what, e);
        if (t->root != rootb) c.fail(FUNC, "tree:invalid-modified", "%s changed the root of the tree", what);
        full_compare("refused call");
    }
    void do_get(const std::string &k) {
        int api = strkeys ? (int)s.pick({3, 1, 2}) : 2;   // get, getstr, getobj
        bool newmem = s.boolean();
        Buf kb(k);
        bool nosz = api != 1 && s.chance(1, 8);            // the size out-parameter is optional
        size_t sz = 777777, *szp = nosz ? nullptr : &sz;
        void *p;
        errno = poison;
        long c0 = g_cmp_count;
        switch (api) {
            case 0: p = qtreetbl_get(t, kb.c(), szp, newmem); break;
            case 1: p = qtreetbl_getstr(t, kb.c(), newmem); break;
            default: p = qtreetbl_getobj(t, kb.p, kb.n, szp, newmem);
        }
        if (nosz) { auto f = m.find(k); if (f != m.end() && f->second.hasval) sz = f->second.val.size(); c.tag("null_size_outparam"); }
        long used = g_cmp_count - c0;
        int e = errno;
        c.op("%s(%s,newmem=%d)", api == 0 ? "get" : api == 1 ? "getstr" : "getobj", hexs(k, 12).c_str(), (int)newmem);
        auto it = m.find(k);
        size_t n = m.size();
        if (g_cmpkind >= 0 && n > 0 && g_cmp_budget == 0) {
            int bound = (int)floor(2.0 * log2((double)n + 1.0) + 1e-9);
            if (used > bound) c.fail(COST, "tree:lookup-cost", "get among %zu keys used %ld comparisons, bound 2*log2(n+1)=%d", n, used, bound);
        }
        if (it == m.end() || !it->second.hasval) {
            seei(p != nullptr);
            if (p) c.fail(FUNC, "tree:get-absent", "get(%s) returned data for %s key", hexs(k).c_str(), it == m.end() ? "an absent" : "a valueless");
            if (it == m.end() && e != ENOENT) c.fail(FUNC, "tree:get-errno", "get of absent key: errno=%d, expected ENOENT", e);
            return;
        }
        const std::string &v = it->second.val;
        if (!p) c.fail(FUNC, "tree:get-missing", "get(%s) returned NULL but the key is present", hexs(k).c_str());
        if (api != 1 && sz != v.size()) c.fail(FUNC, "tree:get-size", "get(%s) size %zu, expected %zu", hexs(k).c_str(), sz, v.size());
        if (memcmp(p, v.data(), v.size()) != 0) c.fail(FUNC, "tree:get-bytes", "get(%s) returned other bytes than last put (%s vs %s)", hexs(k).c_str(), hexs(p, v.size()).c_str(), hexs(v).c_str());
        see(p, v.size());
        if (newmem) give_back(p, v, "get(newmem)");
    }
    void do_remove(const std::string &k) {
        bool present = m.count(k) > 0;
        bool twochild = false;
        if (present) { qtreetbl_obj_t *o = impl_find(k); twochild = o && o->left && o->right; }
        Buf kb(k);
        uint32_t r0 = _q_treetbl_rotate_left_cnt + _q_treetbl_rotate_right_cnt + _q_treetbl_flip_color_cnt;
        qtreetbl_obj_t *rootb = t->root;
        errno = poison;
        bool ok = (strkeys && s.boolean()) ? qtreetbl_remove(t, kb.c()) : qtreetbl_removeobj(t, kb.p, kb.n);
        int e = errno;
        if (scribble) kb.scribble();
        uint32_t r1 = _q_treetbl_rotate_left_cnt + _q_treetbl_rotate_right_cnt + _q_treetbl_flip_color_cnt;
        c.op("remove(%s)%s", hexs(k, 12).c_str(), present ? (twochild ? " [present,2 children]" : " [present]") : " [absent]");
        seei(ok);
        if (ok != present) c.fail(FUNC, "tree:remove-result", "remove(%s) returned %d but the key was %s (errno=%d)", hexs(k).c_str(), (int)ok, present ? "present" : "absent", e);
        if (!present && e != ENOENT) c.fail(FUNC, "tree:remove-errno", "remove of absent key: errno=%d, expected ENOENT", e);
        if (present) { m.erase(k); if (twochild) rm_twochild++; if (r1 != r0) rm_restructure++; if (walked) { changed_after_walk = true; if (t->root != rootb) rootchange_after_walk = true; } }
        else rm_absent++;
    }
    void do_minmax(bool mx) {
        bool nosz = strkeys && s.chance(1, 6);             // "namesize: if not NULL ..."; string keys carry their terminator
        size_t ns = 999999;
        errno = poison;
        void *p = mx ? qtreetbl_find_max(t, nosz ? nullptr : &ns) : qtreetbl_find_min(t, nosz ? nullptr : &ns);
        int e = errno;
        c.op("%s(%s)", mx ? "find_max" : "find_min", nosz ? "namesize=NULL" : "");
        if (nosz) { if (p) ns = strlen((const char *)p) + 1; c.tag("null_size_outparam"); }
        if (m.empty()) {
            if (p) c.fail(FUNC, "tree:minmax-empty", "find_%s on an empty table returned a key", mx ? "max" : "min");
            if (e != ENOENT) c.fail(FUNC, "tree:minmax-errno", "find_%s on empty table: errno=%d", mx ? "max" : "min", e);
            return;
        }
        const Entry &en = mx ? m.rbegin()->second : m.begin()->second;
        const std::string &mk = mx ? m.rbegin()->first : m.begin()->first;
        if (!p) c.fail(FUNC, "tree:minmax-null", "find_%s returned NULL on a table with %zu keys", mx ? "max" : "min", m.size());
        if (ns > 100000 || !key_ok(en, p, ns)) { std::string got = hexs(p, ns > 64 ? 64 : ns); c.fail(FUNC, "tree:minmax-key", "find_%s returned %s, model %s is %s", mx ? "max" : "min", got.c_str(), mx ? "greatest" : "least", hexs(mk).c_str()); }
        see(p, ns);
        give_back(p, std::string((const char *)p, ns), mx ? "find_max" : "find_min");
    }
    void do_clear() {
        qtreetbl_clear(t);
        c.op("clear()");
        if (retain) copies_outlived += (int)kept.size();
        m.clear();
        if (walked) { changed_after_walk = true; }
        verify_kept(false);
    }
    void full_compare(const char *when) {
        // every model key readable with the right bytes, a few absent probes answer NULL
        size_t step = m.size() > 256 ? m.size() / 128 : 1, i = 0;
        for (auto &kv : m) {
            if (i++ % step) continue;
            size_t sz = 0;
            void *p = qtreetbl_getobj(t, kv.first.data(), kv.first.size(), &sz, false);
            if (!kv.second.hasval) { if (p) c.fail(FUNC, "tree:get-bytes", "%s: valueless key %s returns data", when, hexs(kv.first).c_str()); continue; }
            if (!p || sz != kv.second.val.size() || memcmp(p, kv.second.val.data(), sz) != 0)
                c.fail(FUNC, "tree:get-bytes", "%s: key %s holds %s, expected %s", when, hexs(kv.first).c_str(), p ? hexs(p, sz).c_str() : "NULL", hexs(kv.second.val).c_str());
        }
        for (auto &k : universe) if (!m.count(k)) { if (qtreetbl_getobj(t, k.data(), k.size(), nullptr, false)) c.fail(FUNC, "tree:get-absent", "%s: absent key %s is found", when, hexs(k).c_str()); break; }
        check_size(when);
    }

    // traversal from a zeroed cursor; stop_after<0 = complete
    void do_walk(long stop_after, bool newmem, bool asserted) {
        qtreetbl_obj_t cur; memset(&cur, 0, sizeof cur);
        uint8_t tid0 = t->tid;
        auto it = m.begin();
        long steps = 0;
        bool ended = false;
        size_t guard = m.size() * 2 + 16;
        while (true) {
            if (stop_after >= 0 && steps >= stop_after) break;
            bool r = qtreetbl_getnext(t, &cur, newmem);
            if (!r) { ended = true; break; }
            steps++;
            if (lookups_in_walk && s.chance(1, 2)) {
                // a read-only call on another key between two steps: the table stays unmodified
                const std::string &gk = universe[s.range(0, (long)universe.size() - 1)];
                Buf gb(gk); size_t gsz = 0;
                int which = (int)s.range(0, 3);
                if (which == 0) { void *p = qtreetbl_getobj(t, gb.p, gb.n, &gsz, false); auto gi = m.find(gk); if ((p != nullptr) != (gi != m.end() && gi->second.hasval) && !(gi != m.end() && !gi->second.hasval)) c.fail(FUNC, "tree:get-missing", "getobj(%s) between two steps of a walk: wrong presence", hexs(gk).c_str()); }
                else if (which == 1) { size_t ns = 0; void *p = qtreetbl_find_min(t, &ns); free(p); }
                else if (which == 2) { size_t ns = 0; void *p = qtreetbl_find_max(t, &ns); free(p); }
                else (void)qtreetbl_size(t);
                lookups_done++;
            }
            if ((size_t)steps > guard) c.fail(ITER, "tree:walk-endless", "walk returned more than %zu entries for %zu keys", guard, m.size());
            if (asserted) {
                if (it == m.end()) c.fail(ITER, "tree:walk-extra", "walk returned an extra entry %s after all %zu keys", hexs(cur.name, cur.namesize).c_str(), m.size());
                const Entry &e = it->second;
                if (!cur.name || !key_ok(e, cur.name, cur.namesize)) c.fail(ITER, "tree:walk-order", "walk step %ld returned key %s, expected %s (ascending order, each key once)", steps, cur.name ? hexs(cur.name, cur.namesize).c_str() : "NULL", hexs(it->first).c_str());
                if (e.hasval ? (!cur.data || cur.datasize != e.val.size() || memcmp(cur.data, e.val.data(), e.val.size()) != 0) : (cur.data != nullptr && newmem))
                    c.fail(ITER, "tree:walk-value", "walk step %ld: key %s carries the wrong value/size", steps, hexs(it->first).c_str());
                ++it;
            }
            if (newmem) {
                if (cur.name) { see(cur.name, cur.namesize); give_back(cur.name, std::string((const char *)cur.name, cur.namesize), "getnext(newmem).name"); }
                if (cur.data) { see(cur.data, cur.datasize); give_back(cur.data, std::string((const char *)cur.data, cur.datasize), "getnext(newmem).data"); }
            }
        }
        epoch_adv += (uint8_t)(t->tid - tid0);
        if (ended && asserted && it != m.end()) c.fail(ITER, "tree:walk-missing", "walk ended after %ld of %zu keys; first key not returned: %s", steps, m.size(), hexs(it->first).c_str());
        if (!ended && !m.empty() && steps > 0) unfinished = true;
        if (ended && !m.empty()) unfinished = false;
        walked = true;
    }
    void op_walks() {
        int kind = s.pick({5, 2, 2, 2});
        bool newmem = s.chance(1, 4);
        if (kind == 3) {
            // many walks from a zeroed cursor, each abandoned after j steps (they advance the
            // epoch once each and leave their stamps behind)
            long k = s.pick({2, 3}) == 0 ? s.range(2, 30) : s.range(30, 300);
            long j = s.range(0, 3);
            if (walk_budget < k * (j + 1)) k = 2;
            walk_budget -= k * (j + 1);
            c.op("walk x%ld (each abandoned after %ld step(s)) n=%zu", k, j, m.size());
            for (long i = 0; i < k; i++) do_walk(j, false, false);
            return;
        }
        if (kind == 0) { lookups_in_walk = s.chance(1, 3); c.op("walk(full,newmem=%d%s) n=%zu", (int)newmem, lookups_in_walk ? ", read-only calls on other keys between the steps" : "", m.size()); do_walk(-1, newmem, true); lookups_in_walk = false; }
        else if (kind == 1) { long j = s.range(0, (long)m.size()); c.op("walk(abandon after %ld) n=%zu", j, m.size()); do_walk(j, newmem, true); }
        else {
            long k = s.pick({3, 2, 1}) == 0 ? s.range(2, 20) : s.range(20, 300);
            if (m.size() > 64 && k > 40) k = 40;
            if (walk_budget < k * (long)(m.size() + 1)) k = 2;      // keep one case cheap: bounded node visits
            walk_budget -= k * (long)(m.size() + 1);
            c.op("walk x%ld (complete walks) n=%zu", k, m.size());
            for (long i = 0; i < k; i++) do_walk(-1, false, i == 0 || i == k - 1);
        }
    }
    std::string gen_probe(int *klass) {
        // probes relative to the model: present key, universe key, mutated key
        int k = s.pick({3, 3, 3});
        *klass = k;
        if (k == 0 && !m.empty()) { auto it = m.begin(); std::advance(it, s.range(0, (long)m.size() - 1)); return *it->second.variants.begin(); }
        if (k == 1 && !universe.empty()) return universe[s.range(0, (long)universe.size() - 1)];
        return gen_key();
    }
    void do_nearest() {
        // stale traversal links can make the search or its continuation read freed nodes or
        // spin without calling the comparator: an inner guard attributes that to NEAR
        int sig = guarded([&] { do_nearest_inner(); }, 3.0);
        if (sig) c.fail(NEAR, sig == SIGVTALRM ? "tree:nearest-hang" : "tree:nearest-crash", "find_nearest / continuation: %s (CPU budget 3s or fatal signal %d) after %s", sig == SIGVTALRM ? "does not terminate" : "crashed", sig, c.trace.size() > 160 ? c.trace.c_str() + c.trace.size() - 160 : c.trace.c_str());
    }
    void do_nearest_inner() {
        int klass; std::string probe = gen_probe(&klass);
        bool newmem = s.chance(1, 4);
        int cont = s.pick({3, 2, 2});      // none, full continuation, partial continuation
        Buf pb(probe);
        qtreetbl_obj_t r; memset(&r, 0, sizeof r);
        size_t n = m.size();
        volatile bool hung = false;
        g_cmp_count = 0; g_cmp_budget = 64 * (long)(log2((double)n + 2.0) + 1) + 64;
        g_cmp_jb_armed = true;
        errno = poison;
        if (setjmp(g_cmp_jb) == 0) r = qtreetbl_find_nearest(t, pb.p, pb.n, newmem);
        else hung = true;
        g_cmp_jb_armed = false; g_cmp_budget = 0;
        int e = errno;
        c.op("find_nearest(%s,newmem=%d)%s", hexs(probe, 12).c_str(), (int)newmem, cont == 1 ? "+continue" : cont == 2 ? "+partial" : "");
        if (hung) c.fail(NEAR, "tree:nearest-hang", "find_nearest(%s) on %zu keys exceeded %ld comparisons: does not terminate", hexs(probe).c_str(), n, (long)(64 * (long)(log2((double)n + 2.0) + 1) + 64));
        walked = true;
        if (m.empty()) {
            if (r.name) c.fail(NEAR, "tree:nearest-empty", "find_nearest on an empty table returned a key");
            if (e != ENOENT) c.fail(NEAR, "tree:nearest-errno", "find_nearest on an empty table: errno=%d", e);
            return;
        }
        // model floor: greatest key <= probe, else the minimum
        auto ub = m.upper_bound(probe);
        auto want = (ub == m.begin()) ? m.begin() : std::prev(ub);
        bool exact = m.count(probe) > 0;
        if (!exact && (rootchange_after_walk || changed_after_walk)) nt_near = true;
        if (!r.name) c.fail(NEAR, "tree:nearest-null", "find_nearest(%s) found nothing among %zu keys", hexs(probe).c_str(), n);
        if (!key_ok(want->second, r.name, r.namesize)) c.fail(NEAR, "tree:nearest-key", "find_nearest(%s) returned %s, expected %s (%s)", hexs(probe).c_str(), hexs(r.name, r.namesize).c_str(), hexs(want->first).c_str(), exact ? "equal key" : ub == m.begin() ? "no smaller key: minimum" : "greatest smaller key");
        const Entry &we = want->second;
        if (we.hasval && (!r.data || r.datasize != we.val.size() || memcmp(r.data, we.val.data(), we.val.size()) != 0)) c.fail(NEAR, "tree:nearest-value", "find_nearest(%s) returned the wrong value for key %s", hexs(probe).c_str(), hexs(want->first).c_str());
        see(r.name, r.namesize);
        if (newmem) { give_back(r.name, std::string((const char *)r.name, r.namesize), "find_nearest(newmem).name"); if (r.data) give_back(r.data, std::string((const char *)r.data, r.datasize), "find_nearest(newmem).data"); }
        if (cont == 0) return;
        // continuation with getnext from the returned cursor
        bool assert_it = !unfinished;
        uint8_t tid0 = t->tid;
        std::map<std::string, int, KeyLess> seen;
        long limit = cont == 1 ? -1 : s.range(0, (long)n);
        long steps = 0; bool ended = false;
        while (true) {
            if (limit >= 0 && steps >= limit) break;
            bool ok = qtreetbl_getnext(t, &r, false);
            if (!ok) { ended = true; break; }
            steps++;
            if ((size_t)steps > 2 * n + 16) { if (assert_it) c.fail(NEAR, "tree:nearest-cont-endless", "continuation after find_nearest returned more than %zu entries for %zu keys", 2 * n + 16, n); break; }
            std::string k((const char *)r.name, r.namesize);
            if (assert_it) {
                auto it = m.find(k);
                if (it == m.end()) c.fail(NEAR, "tree:nearest-cont-unknown", "continuation returned a key that is not stored: %s", hexs(k).c_str());
                if (++seen[k] > 1) c.fail(NEAR, "tree:nearest-cont-dup", "continuation returned key %s twice", hexs(k).c_str());
            }
        }
        epoch_adv += (uint8_t)(t->tid - tid0);
        if (ended && assert_it && seen.size() != n) {
            std::string miss; for (auto &kv : m) if (!seen.count(kv.first)) { miss = hexs(kv.first); break; }
            c.fail(NEAR, "tree:nearest-cont-missing", "continuation after find_nearest(%s) visited %zu of %zu keys (e.g. %s never returned)", hexs(probe).c_str(), seen.size(), n, miss.c_str());
        }
        if (!ended && steps > 0) unfinished = true;
        if (!ended && steps == 0 && limit == 0) { /* cursor dropped before any step: nothing stamped */ }
        if (ended) unfinished = false;
    }

    void bulk_phase() {
        // ascending / descending / zig-zag / random insertion of many keys, then random deletion
        long n = c.tier ? s.range(50, 3000) : s.range(20, 300);
        int order = (int)s.range(0, 3);
        long delpct = s.range(50, 100);
        c.op("bulk(n=%ld,order=%d,delete=%ld%%)", n, order, delpct);
        uint32_t x = (uint32_t)s.u8() * 2246822519u + 3u;
        std::vector<long> idx(n);
        for (long i = 0; i < n; i++) idx[i] = order == 0 ? i : order == 1 ? n - 1 - i : order == 2 ? ((i & 1) ? n - 1 - i / 2 : i / 2) : i;
        if (order == 3) for (long i = n - 1; i > 0; i--) { x = x * 1664525u + 1013904223u; std::swap(idx[i], idx[(x >> 8) % (uint32_t)(i + 1)]); }
        for (long i = 0; i < n; i++) {
            char kb[16]; int l = snprintf(kb, sizeof kb, "k%06ld", idx[i]);
            std::string k(kb, (size_t)l + 1), v(kb, (size_t)l + 1);
            if (!strkeys) { k = std::string(4, '\0'); uint32_t u = (uint32_t)idx[i] * 7u; memcpy(&k[0], &u, 4); }
            bool present = m.count(k) > 0;
            if (!qtreetbl_putobj(t, k.data(), k.size(), v.data(), v.size())) c.fail(FUNC, "tree:put-failed", "bulk put failed");
            if (present) { Entry &e = m.find(k)->second; e.val = v; e.hasval = true; e.variants.insert(k); } else { Entry e; e.variants.insert(k); e.val = v; e.hasval = true; m.emplace(k, e); }
            if ((i & 63) == 0 && c.decides(SHAPE)) check_shape_now("bulk put");
        }
        if (m.size() > maxn) maxn = m.size();
        check_size("bulk insert"); if (c.decides(SHAPE)) check_shape_now("bulk insert");
        std::vector<std::string> keys; for (auto &kv : m) keys.push_back(kv.first);
        for (long i = (long)keys.size() - 1; i > 0; i--) { x = x * 1664525u + 1013904223u; std::swap(keys[i], keys[(x >> 8) % (uint32_t)(i + 1)]); }
        size_t ndel = keys.size() * (size_t)delpct / 100;
        for (size_t i = 0; i < ndel; i++) {
            qtreetbl_obj_t *o = impl_find(keys[i]); bool two = o && o->left && o->right;
            uint32_t r0 = _q_treetbl_rotate_left_cnt + _q_treetbl_rotate_right_cnt + _q_treetbl_flip_color_cnt;
            bool ok = qtreetbl_removeobj(t, keys[i].data(), keys[i].size());
            if (!ok) c.fail(FUNC, "tree:remove-result", "bulk remove of present key %s returned false", hexs(keys[i]).c_str());
            if (two) rm_twochild++;
            if (r0 != _q_treetbl_rotate_left_cnt + _q_treetbl_rotate_right_cnt + _q_treetbl_flip_color_cnt) rm_restructure++;
            m.erase(keys[i]);
            if (((i & 31) == 0 || m.size() < 40) && c.decides(SHAPE)) check_shape_now("bulk remove");
        }
        if (walked) changed_after_walk = true;
        full_compare("after bulk phase");
    }

    void run() {
        { static const int pv[] = {0, ENOMEM, ENOENT, EINVAL, ERANGE}; poison = pv[s.range(0, 4)]; }
        strkeys = s.pick({3, 2}) == 0;
        g_cmpkind = strkeys ? (int)s.pick({4, 1, 1, 2}) : (int)s.pick({3, 1, 1, 1, 2});
        bool setcmp = g_cmpkind != 0 || s.boolean();
        int usz = (int)s.pick({4, 3, 1});
        size_t U = usz == 0 ? (size_t)s.range(3, 8) : usz == 1 ? (size_t)s.range(8, 40) : (size_t)s.range(40, c.tier ? 400 : 120);
        for (size_t i = 0; i < U; i++) universe.push_back(gen_key());
        c.op("tree(%s keys, cmp=%d%s, universe=%zu)", strkeys ? "string" : "binary", g_cmpkind, setcmp ? "" : " default", U);
        g_cmp_count = 0; g_cmp_budget = 0; g_cmp_jb_armed = false;
        vf_ledger_on = 1;
        int topt = s.chance(1, 4) ? QTREETBL_THREADSAFE : 0;   // a thread-safe table used by one thread behaves like a plain one
        if (topt) c.tag("threadsafe_option_single_thread");
        t = qtreetbl(topt);
        if (!t) c.fail(FUNC, "tree:ctor", "qtreetbl(%d) returned NULL", topt);
        if (c.mode == "C02" && !setcmp) setcmp = true;          // comparisons are counted through the user comparator
        if (setcmp) qtreetbl_set_compare(t, user_cmp);
        bool m1 = c.mode == "C01", m2 = c.mode == "C02", m3 = c.mode == "C03", m4 = c.mode == "C04";
        bool walks = m3 || m4 || c.mode == "C11" || c.mode == "C12";
        // the budgeted comparator is needed where searches can spin (find_nearest); plain walks (C03) also run on the default comparator
        if (walks && !setcmp && !(m3 && g_cmpkind == 0 && s.chance(1, 2))) { setcmp = true; qtreetbl_set_compare(t, user_cmp); }
        if (!setcmp) c.tag("default_comparator");
        bool nearest = m3 || m4 || c.mode == "C11" || c.mode == "C12";
        // weights: put get remove size min max clear walk nearest bulk fullcompare
        std::vector<int> w = {30, 18, 24, 3, 4, 4, 1, 0, 0, 0, 2, 2, 2};
        if (m2) { w[9] = 2; w[1] = 10; }
        if (m3) { w = {14, 3, 10, 1, 1, 1, 1, 16, 5, 0, 1, 1, 1}; }
        if (m4) { w = {14, 3, 10, 1, 1, 1, 1, 6, 22, 0, 1, 1, 1}; }
        if (walks && !m3 && !m4) { w[7] = 6; w[8] = 6; w[9] = 1; }
        if (!setcmp) w[8] = 0;                                  // nearest-key searches need the budgeted comparator
        (void)nearest; (void)m1;
        int maxops = c.tier ? 5000 : 600;
        int ops = 0;
        while (!s.exhausted() && ops++ < maxops) {
            int o = s.pickv(w);
            const char *what = "op";
            switch (o) {
                case 0: { std::string k = universe[s.range(0, (long)U - 1)]; do_put(k); what = "put"; break; }
                case 1: { std::string k = s.chance(1, 8) ? gen_key() : universe[s.range(0, (long)U - 1)]; do_get(k); what = "get"; break; }
                case 2: { std::string k = s.chance(1, 10) ? gen_key() : universe[s.range(0, (long)U - 1)]; do_remove(k); what = "remove"; break; }
                case 3: c.op("size()"); what = "size"; break;
                case 4: do_minmax(false); what = "find_min"; break;
                case 5: do_minmax(true); what = "find_max"; break;
                case 6: do_clear(); what = "clear"; break;
                case 7: op_walks(); what = "walk"; break;
                case 8: do_nearest(); what = "find_nearest"; break;
                case 9: bulk_phase(); what = "bulk"; break;
                case 11: do_refused(universe[s.range(0, (long)U - 1)]); what = "refused call"; break;
                case 12: do_put_alias(universe[s.range(0, (long)U - 1)]); what = "aliasing put"; break;
                default: c.op("compare-all"); full_compare("full comparison"); what = "compare";
            }
            check_size(what);
            if (c.decides(SHAPE) && (m.size() <= 200 || (ops & 7) == 0)) check_shape_now(what);
            if ((ops & 7) == 0) full_compare("periodic comparison");
            c.check_san(what);
        }
        full_compare("end of history");
        if (c.decides(SHAPE)) check_shape_now("end of history");
        if (walks) { c.op("final walk x2"); do_walk(-1, false, true); do_walk(-1, true, true); }
        if (retain) { for (auto &r : kept) (void)r; copies_outlived += (int)kept.size(); }
        verify_kept(false);
        bool nonempty = !m.empty();
        qtreetbl_free(t); t = nullptr;
        c.op("free()");
        verify_kept(true);
        c.check_san("free");
        size_t live = vf_ledger_live();
        if (live) { char d[300]; vf_ledger_dump(d, sizeof d); c.fail(LEAK, "tree:leak", "%zu block(s), %zu bytes still allocated after qtreetbl_free: %s", live, vf_ledger_bytes(), d); }
        vf_ledger_on = 0;
        c.tag(strkeys ? "string_keys" : "binary_keys"); c.tag(("cmp" + std::to_string(g_cmpkind)).c_str());
        if (put_failed_by_fault) c.tag("case_with_put_refused_under_allocation_failure");
        if (lookups_done) c.tag("case_with_lookups_inside_a_walk");
        if (rm_twochild) c.tag("case_with_two_child_removal"); if (rm_restructure) c.tag("case_with_restructuring_removal");
        if (epoch_adv >= 256) c.tag("case_with_epoch_wrap"); if (maxn >= 100) c.tag("case_with_100+_keys");
        // non-triviality per property
        if (c.mode == "C01") c.nontrivial = rm_twochild > 0 && reput > 0 && rm_absent > 0;
        else if (c.mode == "C02") c.nontrivial = rm_restructure > 0;
        else if (c.mode == "C03") c.nontrivial = epoch_adv >= 256 && changed_after_walk;
        else if (c.mode == "C04") c.nontrivial = nt_near;
        else if (c.mode == "C11") c.nontrivial = rm_twochild > 0 && nonempty;
        else if (c.mode == "C12") c.nontrivial = copies_outlived > 0;
    }
};
}  // namespace

bool vf_configure(Ctx &c) {
    c.noteonly = MEM | LEAK;
    if (c.mode == "C01") c.deciding = FUNC | CRASH | HANG;
    else if (c.mode == "C02") c.deciding = SHAPE | COST | CRASH | HANG;
    else if (c.mode == "C03") c.deciding = ITER | CRASH | HANG;
    else if (c.mode == "C04") c.deciding = NEAR | CRASH | HANG;
    else if (c.mode == "C11") { c.deciding = MEM | LEAK | CRASH; c.noteonly = 0; }
    else if (c.mode == "C12") c.deciding = COPY | CRASH;
    else return false;
    return true;
}

void run_case(Src &s, Ctx &c) {
    if (c.mode != "C12") { Run r(s, c, false, false); r.run(); return; }
    // C12: metamorphic differential - the same history once with caller buffers left alone and
    // copies freed at once, once with every caller buffer scribbled + freed right after the call
    // and every returned copy retained to the end.  Everything observed must be identical.
    Src a = s;
    uint64_t obsA; int sanA;
    std::string traceA;
    uint32_t dec0 = c.deciding;
    c.deciding |= FUNC | ITER | NEAR;      // exact bytes and lengths of returned values are part of C12 itself
    { int s0 = g_san_reports; Run r(a, c, false, false); try { r.run(); } catch (...) { c.deciding = dec0; throw; } obsA = r.obs; sanA = g_san_reports - s0; traceA = c.trace; }
    c.deciding = dec0;
    c.trace.clear(); c.opno = 0; c.nontrivial = false;
    vf_ledger_reset();
    int s0 = g_san_reports;
    Run r(s, c, true, true);
    uint32_t dec = c.deciding;
    try { c.deciding |= FUNC | ITER | NEAR; r.run(); c.deciding = dec; }
    catch (CaseFail &f) {
        c.deciding = dec;
        if (f.cls & (FUNC | ITER | NEAR)) throw CaseFail{"tree:scribble-changes-result", "with caller buffers overwritten after each call the history diverges from the undisturbed run: " + f.msg, COPY};
        throw;
    }
    int sanB = g_san_reports - s0;
    if (r.obs != obsA) c.fail(COPY, "tree:scribble-changes-result", "observed results differ between the undisturbed run and the run with scribbled caller buffers / retained copies");
    if (sanB > sanA) c.fail(COPY, "tree:retained-copy-memory-error", "%d more sanitizer report(s) when copies are retained and caller buffers freed: %s", sanB - sanA, g_san_last);
}

// ---------------------------------------------------------------------------------------------
// Bounded-exhaustive part shared by C01 and C02: breadth-first search over EVERY tree state
// reachable from the empty table by put/remove over a universe of K keys (dedup on the exact
// shape: keys + colours in pre-order).  From every state every transition is exercised - put of
// each key (new, or re-put with a new value) and remove of each key (present or absent) - and
// after each one the table is compared with the model (C01) and checked by the independent
// LLRB predicate + qtreetbl_check() + lookup cost (C02).  Each worker runs the complete search
// for one configuration (comparator / key family).
namespace {
struct EOp { bool put; int key; };
std::string shape_of(qtreetbl_obj_t *o, const std::vector<std::string> &keys) {
    if (!o) return ".";
    int idx = -1;
    for (size_t i = 0; i < keys.size(); i++) if (cmp_kind(g_cmpkind, keys[i].data(), keys[i].size(), o->name, o->namesize) == 0) idx = (int)i;
    return strf("(%d%c", idx, o->red ? 'r' : 'b') + shape_of(o->left, keys) + shape_of(o->right, keys) + ")";
}
}  // namespace

// Tall trees (thorough tier): a monotone load is the worst case of the left-leaning tree - the
// leftmost (descending load) path has 2k-2 nodes at n = 2^k-2 keys - so 3.4 million keys give
// search paths of 41 nodes, beyond any "40 levels are plenty" assumption in the code.  The tree
// must stay valid, complete and logarithmic all the way, and come down again cleanly.
static void tall_tree(Ctx &c, EnumStats &st, bool descending) {
    const long N = 3400000;
    g_cmpkind = 0;
    qtreetbl_t *t = qtreetbl(0);
    if (!t) throw CaseStop{"ctor"};
    struct G { qtreetbl_t *t; ~G() { qtreetbl_free(t); } } g{t};
    auto keyof = [&](long i) { char b[16]; snprintf(b, sizeof b, "%07ld", i); return std::string(b); };
    auto verify = [&](long n, const char *when) {
        c.trace = strf("tall tree: %s load of %ld keys, %s", descending ? "descending" : "ascending", n, when);
        Shape sh = check_shape(t);
        if (!sh.ok) c.fail(SHAPE, "tree:shape", "%s after a %s load of %ld keys (%s)", sh.why, descending ? "descending" : "ascending", n, when);
        if (sh.count != (size_t)n || qtreetbl_size(t) != (size_t)n) c.fail(SHAPE, "tree:count", "%zu nodes reachable, size()=%zu, %ld keys stored (%s)", sh.count, qtreetbl_size(t), n, when);
        int bound = (int)floor(2.0 * log2((double)n + 1.0) + 1e-9);
        if (n > 0 && sh.height > bound) c.fail(COST, "tree:height", "height %d with %ld keys, a left-leaning red-black tree has at most %d levels", sh.height, n, bound);
        if (qtreetbl_check(t) != 0) c.fail(SHAPE, "tree:selfcheck-disagrees", "qtreetbl_check() reports a violation on a tree the independent checker accepts (%ld keys)", n);
        st.extra[descending ? "tall_tree_height_descending" : "tall_tree_height_ascending"] = (uint64_t)sh.height;
        st.evaluations++; st.nontrivial++;
    };
    long next_check = 1022;
    for (long i = 0; i < N; i++) {
        long k = descending ? N - 1 - i : i;
        std::string key = keyof(k);
        if (!qtreetbl_putstr(t, key.c_str(), "v")) c.fail(FUNC, "tree:put-failed", "put of key %s (number %ld of a monotone load) failed", key.c_str(), i + 1);
        if (i + 1 == next_check) { verify(i + 1, "during the load"); next_check = (next_check + 2) * 4 - 2; }
    }
    verify(N, "load complete");
    // the deep end: lookups, replacement, removal and re-insertion of the keys at the far ends
    for (long k : {0L, 1L, 2L, N / 2, N - 3, N - 2, N - 1}) {
        std::string key = keyof(k);
        char *v = qtreetbl_getstr(t, key.c_str(), false);
        if (!v || strcmp(v, "v") != 0) c.fail(FUNC, "tree:get-missing", "key %s of the %ld loaded keys is not found", key.c_str(), N);
        if (!qtreetbl_putstr(t, key.c_str(), "w")) c.fail(FUNC, "tree:put-failed", "replacing key %s failed", key.c_str());
    }
    verify(N, "after replacing keys at both ends");
    long removed = 0;
    for (long k = 0; k < N; k += (k < 2000 || k > N - 2000) ? 1 : 7) { if (!qtreetbl_remove(t, keyof(k).c_str())) c.fail(FUNC, "tree:remove-result", "remove of stored key %s returned false", keyof(k).c_str()); removed++; }
    verify(N - removed, "after removing both ends and every 7th key");
    for (long k = 0; k < 2000; k++) if (!qtreetbl_putstr(t, keyof(k).c_str(), "x")) c.fail(FUNC, "tree:put-failed", "re-inserting key %s failed", keyof(k).c_str());
    verify(N - removed + 2000, "after re-inserting the low end");
    st.samples.push_back(strf("tall tree: %s load of %ld keys, validity/height/count checked at 7 sizes during the load, after replacements, after removing ~1/7 of the keys, after re-insertion", descending ? "descending" : "ascending", N));
}

// C04, thorough tier: nearest-key search on a tall tree.  A monotone load of 2.4 million keys gives search paths of 35 nodes
// (descending) - depths no generated history comes near; every stored key is then probed exactly, and just above it (the
// floor must be that key), plus probes below the minimum and above the maximum.
static void tall_nearest(Ctx &c, EnumStats &st, bool descending) {
    const long N = 2400000;
    g_cmpkind = 0;
    qtreetbl_t *t = qtreetbl(0);
    if (!t) throw CaseStop{"ctor"};
    struct G { qtreetbl_t *t; ~G() { qtreetbl_free(t); } } g{t};
    auto keyof = [&](long i) { char b[16]; snprintf(b, sizeof b, "%07ld", i); return std::string(b); };
    for (long i = 0; i < N; i++) {
        std::string key = keyof(descending ? N - 1 - i : i);
        if (!qtreetbl_putstr(t, key.c_str(), "v")) c.fail(FUNC, "tree:put-failed", "put of key %s (number %ld of a monotone load) failed", key.c_str(), i + 1);
    }
    auto probe = [&](const std::string &p, long want, const char *kind) {
        c.trace = strf("tall tree (%s load of %ld keys): find_nearest(%s), %s", descending ? "descending" : "ascending", N, p.c_str(), kind);
        errno = 0;
        qtreetbl_obj_t o = qtreetbl_find_nearest(t, p.c_str(), p.size() + 1, false);
        std::string w = keyof(want);
        if (!o.name || o.namesize != w.size() + 1 || memcmp(o.name, w.c_str(), w.size() + 1) != 0)
            c.fail(NEAR, "tree:nearest-wrong", "find_nearest(%s) among %ld keys (%s load) returned %s, the greatest key not above the probe is %s", p.c_str(), N, descending ? "descending" : "ascending", o.name ? hexs(o.name, o.namesize).c_str() : "NULL", w.c_str());
        st.evaluations++; st.nontrivial++;
    };
    for (long k = 0; k < N; k++) { std::string key = keyof(k); probe(key, k, "exact hit"); probe(key + "5", k, "just above a stored key"); }
    probe("/", 0, "below the minimum: the smallest key");
    probe("9999999z", N - 1, "above the maximum");
    st.samples.push_back(strf("tall tree: %s load of %ld keys, find_nearest of every key and of a probe just above every key", descending ? "descending" : "ascending", N));
}

bool vf_enumerate(Ctx &c, EnumStats &st) {
    int shard = 0, nshards = 1;
    if (const char *e = getenv("VF_ENUM_SHARD")) sscanf(e, "%d/%d", &shard, &nshards);
    if (c.mode == "C04") { if (c.tier && shard < 2) tall_nearest(c, st, shard == 0); return true; }
    if (c.tier && c.mode == "C02" && (shard == 0 || shard == 1)) tall_tree(c, st, shard == 0);
    int K = c.tier ? 11 : 9;
    int variant = shard % 5;
    g_cmpkind = variant;
    if (shard >= 5) K -= 1 + (shard - 5) / 5;          // further workers: smaller universes of the same families with other key bytes
    if (K < 4) K = 4;
    std::vector<std::string> keys;
    for (int i = 0; i < K; i++) {
        std::string k;
        if (variant == 4) { uint32_t v = (uint32_t)(i * 37 + shard); k.assign((const char *)&v, 4); }
        else if (variant == 3) { k = std::string(1, (char)((i & 1 ? 'a' : 'A') + i)) + (i % 3 == 0 ? "x" : ""); }
        else if (variant == 2) { k = std::string((size_t)(1 + i % 4), (char)('a' + i)); }
        else { static const char *fam[] = {"a", "ab", "abc", "b", "", "ba", "c", "ca", "cab", "d", "da", "e"}; k = std::string(fam[i % 12]) + std::string(1, '\0'); if (i >= 12) k = "z" + k; }
        keys.push_back(k);
    }
    auto fresh = [&]() { qtreetbl_t *t = qtreetbl(0); if (!t) throw CaseStop{"ctor"}; qtreetbl_set_compare(t, user_cmp); return t; };
    g_cmp_budget = 0; g_cmp_jb_armed = false;
    std::map<std::string, std::vector<EOp>> seen;      // shape -> shortest history
    std::vector<std::string> frontier{"."};
    seen["."] = {};
    uint64_t valctr = 0;
    while (!frontier.empty()) {
        std::vector<std::string> next;
        for (auto &shape : frontier) {
            const std::vector<EOp> hist = seen[shape];
            for (int tr = 0; tr < 2 * K; tr++) {
                EOp op{tr < K, tr % K};
                // rebuild the state, then apply the transition
                qtreetbl_t *t = fresh();
                struct G { qtreetbl_t *t; ~G() { qtreetbl_free(t); } } g{t};
                std::map<int, std::string> model;
                auto apply = [&](const EOp &o, bool checked) {
                    const std::string &k = keys[(size_t)o.key];
                    if (o.put) {
                        std::string v = strf("v%llu", (unsigned long long)++valctr);
                        bool ok = qtreetbl_putobj(t, k.data(), k.size(), v.data(), v.size());
                        if (!ok && checked) c.fail(FUNC, "tree:put-failed", "put(key %d) failed", o.key);
                        model[o.key] = v;
                    } else {
                        errno = 0;
                        bool ok = qtreetbl_removeobj(t, k.data(), k.size());
                        bool present = model.count(o.key) > 0;
                        if (checked && ok != present) c.fail(FUNC, "tree:remove-result", "remove(key %d) returned %d but the key was %s", o.key, (int)ok, present ? "present" : "absent");
                        model.erase(o.key);
                    }
                };
                for (auto &o : hist) apply(o, false);
                if (c.verbose) c.op("state %s: %s key %d", shape.c_str(), op.put ? "put" : "remove", op.key);
                c.trace = "enumerated LLRB state " + shape + " then " + (op.put ? "put" : "remove") + strf(" key %d (%s)", op.key, hexs(keys[(size_t)op.key]).c_str());
                apply(op, true);
                st.transitions++; st.evaluations++;
                // C01: contents
                if (qtreetbl_size(t) != model.size()) c.fail(FUNC, "tree:size", "size()=%zu, model %zu", qtreetbl_size(t), model.size());
                for (int i = 0; i < K; i++) {
                    size_t sz = 0; long c0 = g_cmp_count;
                    void *p = qtreetbl_getobj(t, keys[(size_t)i].data(), keys[(size_t)i].size(), &sz, false);
                    long used = g_cmp_count - c0;
                    auto it = model.find(i);
                    if ((p != nullptr) != (it != model.end())) c.fail(FUNC, it == model.end() ? "tree:get-absent" : "tree:get-missing", "key %d is %s but get says otherwise", i, it == model.end() ? "absent" : "present");
                    if (p && (sz != it->second.size() || memcmp(p, it->second.data(), sz) != 0)) c.fail(FUNC, "tree:get-bytes", "key %d returns the wrong value", i);
                    size_t n = model.size();
                    if (n > 0) { int bound = (int)floor(2.0 * log2((double)n + 1.0) + 1e-9); if (used > bound) c.fail(COST, "tree:lookup-cost", "get among %zu keys used %ld comparisons, bound %d", n, used, bound); }
                }
                if (!model.empty()) {
                    // least / greatest key under the comparator
                    int mn = -1, mx = -1;
                    for (auto &kv : model) { if (mn < 0 || cmp_kind(g_cmpkind, keys[(size_t)kv.first].data(), keys[(size_t)kv.first].size(), keys[(size_t)mn].data(), keys[(size_t)mn].size()) < 0) mn = kv.first; if (mx < 0 || cmp_kind(g_cmpkind, keys[(size_t)kv.first].data(), keys[(size_t)kv.first].size(), keys[(size_t)mx].data(), keys[(size_t)mx].size()) > 0) mx = kv.first; }
                    size_t ns = 0; void *p = qtreetbl_find_min(t, &ns);
                    if (!p || cmp_kind(g_cmpkind, p, ns, keys[(size_t)mn].data(), keys[(size_t)mn].size()) != 0) { free(p); c.fail(FUNC, "tree:minmax-key", "find_min is not key %d", mn); }
                    free(p);
                    p = qtreetbl_find_max(t, &ns);
                    if (!p || cmp_kind(g_cmpkind, p, ns, keys[(size_t)mx].data(), keys[(size_t)mx].size()) != 0) { free(p); c.fail(FUNC, "tree:minmax-key", "find_max is not key %d", mx); }
                    free(p);
                }
                // C02: shape
                Shape sh = check_shape(t);
                int lib = qtreetbl_check(t);
                if (!sh.ok) c.fail(SHAPE, "tree:shape", "%s (qtreetbl_check()=%d)", sh.why, lib);
                int bh; bool rules = !(t->root && t->root->red) && shape_rules_only(t->root, &bh);
                if (rules != (lib == 0)) c.fail(SHAPE, "tree:selfcheck-disagrees", "independent checker says %s, qtreetbl_check()=%d", rules ? "valid" : "invalid", lib);
                if (sh.count != t->num) c.fail(SHAPE, "tree:count", "%zu nodes reachable but num=%zu", sh.count, t->num);
                std::string ns = shape_of(t->root, keys);
                if (!seen.count(ns)) { std::vector<EOp> h2 = hist; h2.push_back(op); seen[ns] = h2; next.push_back(ns); if (st.samples.size() < 4 && seen.size() % 397 == 5) st.samples.push_back("reached state " + ns + " after " + std::to_string(h2.size()) + " ops"); }
                if (!op.put && model.size() >= 2) st.nontrivial++;
            }
        }
        frontier.swap(next);
    }
    st.states = seen.size();
    st.extra["max_key_universe"] = (uint64_t)K;
    st.samples.push_back(strf("complete BFS: comparator kind %d, %d keys, %zu distinct tree states, %llu transitions", variant, K, seen.size(), (unsigned long long)st.transitions));
    return true;
}
