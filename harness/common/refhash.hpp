// refhash.hpp - reference implementations written from the specifications, independent of
// qlibc: MD5 (RFC 1321), MurmurHash3 x86_32 / x64_128 (byte-wise little-endian loads, seed
// parameter), FNV-1 32/64 (plain multiplication).  ref_selftest() validates them on the
// published vectors (RFC 1321 test suite, SMHasher verification values, FNV vectors).
#pragma once
#include <cstdint>
#include <cstring>
#include <string>
#include <cmath>

namespace ref {

inline uint32_t rotl32(uint32_t x, int r) { return (x << r) | (x >> (32 - r)); }
inline uint64_t rotl64(uint64_t x, int r) { return (x << r) | (x >> (64 - r)); }

inline void md5(const uint8_t *msg, size_t len, uint8_t out[16]) {
    static const int S[64] = {7, 12, 17, 22, 7, 12, 17, 22, 7, 12, 17, 22, 7, 12, 17, 22, 5, 9, 14, 20, 5, 9, 14, 20, 5, 9, 14, 20, 5, 9, 14, 20,
                              4, 11, 16, 23, 4, 11, 16, 23, 4, 11, 16, 23, 4, 11, 16, 23, 6, 10, 15, 21, 6, 10, 15, 21, 6, 10, 15, 21, 6, 10, 15, 21};
    static uint32_t K[64]; static bool init = false;
    if (!init) { for (int i = 0; i < 64; i++) K[i] = (uint32_t)(int64_t)floor(fabs(sin((double)i + 1.0)) * 4294967296.0); init = true; }
    uint32_t a0 = 0x67452301, b0 = 0xefcdab89, c0 = 0x98badcfe, d0 = 0x10325476;
    auto block = [&](const uint8_t *p) {
        uint32_t M[16];
        for (int i = 0; i < 16; i++) M[i] = (uint32_t)p[4 * i] | ((uint32_t)p[4 * i + 1] << 8) | ((uint32_t)p[4 * i + 2] << 16) | ((uint32_t)p[4 * i + 3] << 24);
        uint32_t A = a0, B = b0, C = c0, D = d0;
        for (int i = 0; i < 64; i++) {
            uint32_t F; int g;
            if (i < 16) { F = (B & C) | (~B & D); g = i; }
            else if (i < 32) { F = (D & B) | (~D & C); g = (5 * i + 1) % 16; }
            else if (i < 48) { F = B ^ C ^ D; g = (3 * i + 5) % 16; }
            else { F = C ^ (B | ~D); g = (7 * i) % 16; }
            F = F + A + K[i] + M[g];
            A = D; D = C; C = B; B = B + rotl32(F, S[i]);
        }
        a0 += A; b0 += B; c0 += C; d0 += D;
    };
    size_t full = len / 64;
    for (size_t i = 0; i < full; i++) block(msg + 64 * i);          // in place: no copy of the message
    uint8_t tail[128]; memset(tail, 0, sizeof tail);
    size_t rem = len - full * 64;
    if (rem) memcpy(tail, msg + full * 64, rem);
    tail[rem] = 0x80;
    size_t tl = rem < 56 ? 64 : 128;
    uint64_t bits = (uint64_t)len * 8;
    for (int i = 0; i < 8; i++) tail[tl - 8 + (size_t)i] = (uint8_t)(bits >> (8 * i));
    block(tail); if (tl == 128) block(tail + 64);
    uint32_t r[4] = {a0, b0, c0, d0};
    for (int i = 0; i < 4; i++) for (int j = 0; j < 4; j++) out[4 * i + j] = (uint8_t)(r[i] >> (8 * j));
}

inline uint32_t murmur3_32(const uint8_t *p, size_t len, uint32_t seed) {
    uint32_t h = seed; const uint32_t c1 = 0xcc9e2d51, c2 = 0x1b873593;
    size_t nb = len / 4;
    for (size_t i = 0; i < nb; i++) {
        uint32_t k = (uint32_t)p[4 * i] | ((uint32_t)p[4 * i + 1] << 8) | ((uint32_t)p[4 * i + 2] << 16) | ((uint32_t)p[4 * i + 3] << 24);
        k *= c1; k = rotl32(k, 15); k *= c2; h ^= k; h = rotl32(h, 13); h = h * 5 + 0xe6546b64;
    }
    uint32_t k = 0; const uint8_t *t = p + nb * 4;
    switch (len & 3) { case 3: k ^= (uint32_t)t[2] << 16; /* fallthrough */ case 2: k ^= (uint32_t)t[1] << 8; /* fallthrough */ case 1: k ^= t[0]; k *= c1; k = rotl32(k, 15); k *= c2; h ^= k; }
    h ^= (uint32_t)len; h ^= h >> 16; h *= 0x85ebca6b; h ^= h >> 13; h *= 0xc2b2ae35; h ^= h >> 16;
    return h;
}
inline uint64_t fmix64(uint64_t k) { k ^= k >> 33; k *= 0xff51afd7ed558ccdULL; k ^= k >> 33; k *= 0xc4ceb9fe1a85ec53ULL; k ^= k >> 33; return k; }
inline uint64_t ld64(const uint8_t *p) { uint64_t v = 0; for (int i = 0; i < 8; i++) v |= (uint64_t)p[i] << (8 * i); return v; }
inline void murmur3_128(const uint8_t *p, size_t len, uint32_t seed, uint8_t out[16]) {
    uint64_t h1 = seed, h2 = seed; const uint64_t c1 = 0x87c37b91114253d5ULL, c2 = 0x4cf5ad432745937fULL;
    size_t nb = len / 16;
    for (size_t i = 0; i < nb; i++) {
        uint64_t k1 = ld64(p + 16 * i), k2 = ld64(p + 16 * i + 8);
        k1 *= c1; k1 = rotl64(k1, 31); k1 *= c2; h1 ^= k1; h1 = rotl64(h1, 27); h1 += h2; h1 = h1 * 5 + 0x52dce729;
        k2 *= c2; k2 = rotl64(k2, 33); k2 *= c1; h2 ^= k2; h2 = rotl64(h2, 31); h2 += h1; h2 = h2 * 5 + 0x38495ab5;
    }
    const uint8_t *t = p + nb * 16; uint64_t k1 = 0, k2 = 0; size_t r = len & 15;
    for (size_t i = r; i > 8; i--) k2 ^= (uint64_t)t[i - 1] << (8 * (i - 9));
    if (r > 8) { k2 *= c2; k2 = rotl64(k2, 33); k2 *= c1; h2 ^= k2; }
    for (size_t i = r < 8 ? r : 8; i > 0; i--) k1 ^= (uint64_t)t[i - 1] << (8 * (i - 1));
    if (r > 0) { k1 *= c1; k1 = rotl64(k1, 31); k1 *= c2; h1 ^= k1; }
    h1 ^= (uint64_t)len; h2 ^= (uint64_t)len; h1 += h2; h2 += h1; h1 = fmix64(h1); h2 = fmix64(h2); h1 += h2; h2 += h1;
    for (int i = 0; i < 8; i++) { out[i] = (uint8_t)(h1 >> (8 * i)); out[8 + i] = (uint8_t)(h2 >> (8 * i)); }
}
inline uint32_t fnv1_32(const uint8_t *p, size_t n) { uint32_t h = 0x811C9DC5u; for (size_t i = 0; i < n; i++) { h *= 0x01000193u; h ^= p[i]; } return h; }
inline uint64_t fnv1_64(const uint8_t *p, size_t n) { uint64_t h = 0xCBF29CE484222325ULL; for (size_t i = 0; i < n; i++) { h *= 0x100000001B3ULL; h ^= p[i]; } return h; }

inline std::string hex16(const uint8_t *d, size_t n = 16) { static const char *hx = "0123456789abcdef"; std::string s; for (size_t i = 0; i < n; i++) { s.push_back(hx[d[i] >> 4]); s.push_back(hx[d[i] & 15]); } return s; }

// returns nullptr when all published vectors are reproduced, else the name of the failing one
inline const char *selftest() {
    static const char *mv[][2] = {{"", "d41d8cd98f00b204e9800998ecf8427e"}, {"a", "0cc175b9c0f1b6a831c399e269772661"}, {"abc", "900150983cd24fb0d6963f7d28e17f72"},
        {"message digest", "f96b697d7cb7938d525a2f31aaf161d0"}, {"abcdefghijklmnopqrstuvwxyz", "c3fcd3d76192e4007dfb496cca67e13b"},
        {"ABCDEFGHIJKLMNOPQRSTUVWXYZabcdefghijklmnopqrstuvwxyz0123456789", "d174ab98d277d9f5a5611c2c9f419d9f"},
        {"12345678901234567890123456789012345678901234567890123456789012345678901234567890", "57edf4a22be3c955ac49da2e2107b67a"}};
    for (auto &v : mv) { uint8_t d[16]; md5((const uint8_t *)v[0], strlen(v[0]), d); if (hex16(d) != v[1]) return "MD5 RFC 1321 test suite"; }
    // SMHasher VerificationTest
    { uint8_t key[256], hashes[256 * 4], fin[4]; memset(hashes, 0, sizeof hashes);
      for (int i = 0; i < 256; i++) { key[i] = (uint8_t)i; uint32_t h = murmur3_32(key, (size_t)i, (uint32_t)(256 - i)); memcpy(hashes + 4 * i, &h, 4); }
      uint32_t h = murmur3_32(hashes, sizeof hashes, 0); memcpy(fin, &h, 4);
      uint32_t v = (uint32_t)fin[0] | ((uint32_t)fin[1] << 8) | ((uint32_t)fin[2] << 16) | ((uint32_t)fin[3] << 24);
      if (v != 0xB0F57EE3u) return "MurmurHash3_x86_32 SMHasher verification value"; }
    { uint8_t key[256]; static uint8_t hashes[256 * 16]; uint8_t fin[16]; memset(hashes, 0, sizeof hashes);
      for (int i = 0; i < 256; i++) { key[i] = (uint8_t)i; murmur3_128(key, (size_t)i, (uint32_t)(256 - i), hashes + 16 * i); }
      murmur3_128(hashes, sizeof hashes, 0, fin);
      uint32_t v = (uint32_t)fin[0] | ((uint32_t)fin[1] << 8) | ((uint32_t)fin[2] << 16) | ((uint32_t)fin[3] << 24);
      if (v != 0x6384BA69u) return "MurmurHash3_x64_128 SMHasher verification value"; }
    if (fnv1_32((const uint8_t *)"", 0) != 0x811c9dc5u || fnv1_32((const uint8_t *)"a", 1) != 0x050c5d7eu || fnv1_32((const uint8_t *)"foobar", 6) != 0x31f0b262u) return "FNV-1 32 vectors";
    if (fnv1_64((const uint8_t *)"a", 1) != 0xaf63bd4c8601b7beULL || fnv1_64((const uint8_t *)"foobar", 6) != 0x340d8765a4dda9c2ULL) return "FNV-1 64 vectors";
    return nullptr;
}
}  // namespace ref
