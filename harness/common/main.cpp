// main.cpp - the drivers around run_case():
//   <bin> pbt    --mode C01 --out r.json --faildir d [--scale K] [--tier quick|thorough] [--variant i]
//                (rapidcheck; seed / case count / max size come from RC_PARAMS)
//   <bin> replay --mode C01 <file> [-v]          (bypasses both libraries; exit 0 pass, 1 fail)
//   <bin> enum   --mode C01 --out r.json --faildir d   (bounded-exhaustive enumerator, if any)
//   built with -DVF_FUZZ: libFuzzer target, configuration from the environment (VF_MODE,
//   VF_OUT, VF_TIER); the semantic oracle is inside the target and traps on a deciding failure.
#include "vf.hpp"
#include <unistd.h>
#include <fcntl.h>
#include <csignal>
#include <cerrno>
#include <ctime>
#include <unordered_set>
#include <fstream>
#ifndef VF_FUZZ
#include <rapidcheck.h>
#endif

using namespace vf;

namespace {
struct FailInfo { std::string sig, msg, cls, trace; std::vector<uint8_t> bytes; };

struct Stats {
    uint64_t evaluations = 0, passes = 0, shrink_evals = 0, stopped_other = 0, excluded_known = 0;
    std::unordered_set<uint64_t> nt;
    std::map<std::string, uint64_t> tags, stops, excluded;
    std::vector<std::string> nt_samples, nt_tail, trivial_samples;
    uint64_t total_ops = 0, total_bytes = 0;
} G;

Ctx g_ctx;
std::vector<std::string> g_exclude;
double g_cpu = 10.0;
std::string g_out, g_faildir;
bool g_failed_once = false;

std::string jesc(const std::string &s) {
    std::string o;
    for (unsigned char ch : s) {
        if (ch == '"' || ch == '\\') { o.push_back('\\'); o.push_back((char)ch); }
        else if (ch < 0x20 || ch > 0x7e) { char b[8]; snprintf(b, sizeof b, "\\u%04x", ch); o += b; }
        else o.push_back((char)ch);
    }
    return o;
}

bool excluded(const std::string &sig) {
    for (auto &e : g_exclude) if (!e.empty() && sig.find(e) != std::string::npos) return true;
    return false;
}

}  // namespace
namespace vf {
bool is_excluded(const std::string &sig) { return excluded(sig); }
void count_excluded(const std::string &sig) { if (g_failed_once) return; G.excluded_known++; G.excluded[sig]++; }
}
namespace {
const char *signame(int s) {
    switch (s) { case SIGSEGV: return "SIGSEGV"; case SIGBUS: return "SIGBUS"; case SIGFPE: return "SIGFPE";
                 case SIGILL: return "SIGILL"; case SIGABRT: return "SIGABRT"; case SIGVTALRM: return "CPU-BUDGET"; }
    return "SIG?";
}

// returns true when the case passed (or was abandoned for a non-deciding reason)
int g_curfd = -2;
bool exec_case(const uint8_t *d, size_t n, FailInfo &fi) {
    // keep the bytes of the case being executed on disk: if the process dies inside the library
    // (fatal sanitizer error, crash in a worker thread) the driver still has the replay input
    if (g_curfd == -2) { const char *cf = getenv("VF_CURFILE"); g_curfd = cf ? open(cf, O_CREAT | O_RDWR | O_TRUNC, 0600) : -1; }
    if (g_curfd >= 0) { if (ftruncate(g_curfd, 0) == 0) { ssize_t w = pwrite(g_curfd, d, n, 0); (void)w; } }
    Ctx &c = g_ctx;
    c.reset_case();
    Src s(d, n);
    vf_ledger_reset();
    disarm_fail();
    vf_ledger_on = 0;
    bool pass = true, stopped = false;
    int sig = 0;
    san_sync();
    { // fill byte of fresh malloc memory for this case: a function of the case bytes (replays agree)
      static const int fills[] = {-1, -1, 0x01, 0x02, 0x03, 0x7f, 0x80, 0xff};
      uint32_t h = 2166136261u; for (size_t i = 0; i < n; i++) h = (h ^ d[i]) * 16777619u;
      vf_malloc_fill = fills[(h >> 7) & 7];
      g_via_members = (h >> 12) & 1;                       // container calls through the object's member pointers (via_members.hpp)
      if (g_via_members) c.tag("calls_via_member_pointers");
      static const int pois[] = {0, 0, ERANGE, ENOMEM, ENOENT, EINVAL, EINTR, EAGAIN};
      g_errno_poison = pois[(h >> 13) & 7]; errno = g_errno_poison; }
    try {
        dirty_stack();
        sig = guarded([&] { run_case(s, c); }, g_cpu);
        if (sig == 0) c.check_san("the end of the case");          // a report nobody polled still belongs to this case
    } catch (CaseFail &f) {
        pass = false; fi.sig = f.sig; fi.msg = f.msg; fi.cls = cls_name(f.cls);
    } catch (CaseStop &st) {
        stopped = true; G.stops[st.why]++;
    }
    vf_ledger_on = 0; disarm_fail();
    vf_hook_trylock = nullptr; vf_hook_unlock = nullptr; vf_hook_usleep = nullptr;
    if (sig != 0) {
        uint32_t cls = sig == SIGVTALRM ? HANG : CRASH;
        std::string sg = std::string(sig == SIGVTALRM ? "hang:" : "crash:") + signame(sig);
        if (c.decides(cls)) { pass = false; fi.sig = sg; fi.cls = cls_name(cls);
            fi.msg = strf("%s inside the case after op %d (last: %.200s)", signame(sig), c.opno,
                          c.trace.size() > 200 ? c.trace.c_str() + c.trace.size() - 200 : c.trace.c_str()); }
        else { stopped = true; G.stops[sg]++; }
    }
    G.evaluations++;
    if (g_failed_once) G.shrink_evals++;
    for (auto &kv : c.tags) G.tags[kv.first] += kv.second;
    G.total_ops += (uint64_t)c.opno; G.total_bytes += n;
    if (!pass && excluded(fi.sig)) { G.excluded_known++; G.excluded[fi.sig]++; return true; }
    if (!pass) { fi.trace = c.trace; fi.bytes.assign(d, d + n); return false; }
    if (stopped) { G.stopped_other++; return true; }
    G.passes++;
    if (c.nontrivial && !g_failed_once) {
        uint64_t h = s.hash() ^ (c.extra_hash * 0x9e3779b97f4a7c15ull);
        bool fresh = G.nt.insert(h).second;
        if (fresh && !g_failed_once) {
            std::string t = c.trace.size() > 1500 ? c.trace.substr(0, 1500) + " ..." : c.trace;
            if (G.nt_samples.size() < 2) G.nt_samples.push_back(t);
            else { G.nt_tail.push_back(t); if (G.nt_tail.size() > 2) G.nt_tail.erase(G.nt_tail.begin()); }
        }
    } else if (G.trivial_samples.size() < 1 && !c.trace.empty()) {
        G.trivial_samples.push_back(c.trace.size() > 600 ? c.trace.substr(0, 600) + " ..." : c.trace);
    }
    return true;
}

void write_stats(const std::vector<FailInfo> &fails, const EnumStats *es, const char *status) {
    if (g_out.empty()) return;
    std::string tmp = g_out + ".tmp";
    FILE *f = fopen(tmp.c_str(), "w");
    if (!f) return;
    fprintf(f, "{\n \"harness\": \"%s\", \"mode\": \"%s\", \"status\": \"%s\",\n", vf_harness_name, g_ctx.mode.c_str(), status);
    fprintf(f, " \"evaluations\": %llu, \"passes\": %llu, \"shrink_evals\": %llu, \"stopped_other\": %llu, \"excluded_known\": %llu,\n",
            (unsigned long long)G.evaluations, (unsigned long long)G.passes, (unsigned long long)G.shrink_evals,
            (unsigned long long)G.stopped_other, (unsigned long long)G.excluded_known);
    fprintf(f, " \"nontrivial\": %llu, \"total_ops\": %llu, \"total_bytes\": %llu, \"sanitizer_reports\": %d, \"tainted\": %s,\n",
            (unsigned long long)G.nt.size(), (unsigned long long)G.total_ops, (unsigned long long)G.total_bytes, (int)g_san_reports, g_tainted ? "true" : "false");
    auto dumpmap = [&](const char *name, const std::map<std::string, uint64_t> &m) {
        fprintf(f, " \"%s\": {", name);
        bool first = true;
        for (auto &kv : m) { fprintf(f, "%s\"%s\": %llu", first ? "" : ", ", jesc(kv.first).c_str(), (unsigned long long)kv.second); first = false; }
        fprintf(f, "},\n");
    };
    dumpmap("tags", G.tags); dumpmap("stops", G.stops); dumpmap("excluded", G.excluded);
    fprintf(f, " \"samples\": [");
    bool first = true;
    auto dumps = [&](const std::vector<std::string> &v, const char *kind) {
        for (auto &s : v) { fprintf(f, "%s{\"kind\": \"%s\", \"case\": \"%s\"}", first ? "" : ", ", kind, jesc(s).c_str()); first = false; }
    };
    dumps(G.nt_samples, "nontrivial"); dumps(G.nt_tail, "nontrivial"); dumps(G.trivial_samples, "trivial");
    if (es) dumps(es->samples, "enumerated");
    fprintf(f, "],\n");
    if (es) {
        fprintf(f, " \"enum\": {\"evaluations\": %llu, \"states\": %llu, \"transitions\": %llu, \"nontrivial\": %llu, \"complete\": %s",
                (unsigned long long)es->evaluations, (unsigned long long)es->states, (unsigned long long)es->transitions,
                (unsigned long long)es->nontrivial, es->complete ? "true" : "false");
        for (auto &kv : es->extra) fprintf(f, ", \"%s\": %llu", jesc(kv.first).c_str(), (unsigned long long)kv.second);
        fprintf(f, "},\n");
    }
    fprintf(f, " \"fails\": [");
    first = true;
    for (auto &x : fails) {
        fprintf(f, "%s{\"sig\": \"%s\", \"cls\": \"%s\", \"msg\": \"%s\", \"trace\": \"%s\", \"nbytes\": %zu}", first ? "" : ", ",
                jesc(x.sig).c_str(), x.cls.c_str(), jesc(x.msg).c_str(),
                jesc(x.trace.size() > 3000 ? x.trace.substr(0, 3000) + " ..." : x.trace).c_str(), x.bytes.size());
        first = false;
    }
    fprintf(f, "]\n}\n");
    fclose(f);
    rename(tmp.c_str(), g_out.c_str());
    // hashes of the distinct non-trivial cases, for the union across workers
    std::string hp = g_out + ".nt";
    FILE *h = fopen(hp.c_str(), "wb");
    if (h) { for (uint64_t x : G.nt) fwrite(&x, 8, 1, h); fclose(h); }
}

std::string save_fail(const FailInfo &fi, const char *tag) {
    if (g_faildir.empty()) return "";
    std::string p = g_faildir + "/" + tag + "-" + g_ctx.mode + "-" + vf_harness_name + "-" + std::to_string((unsigned long long)fnv64(fi.bytes.data(), fi.bytes.size()) % 100000000ull) + ".bin";
    FILE *f = fopen(p.c_str(), "wb");
    if (!f) return "";
    if (!fi.bytes.empty()) fwrite(fi.bytes.data(), 1, fi.bytes.size(), f);
    fclose(f);
    return p;
}

void common_env() {
    if (const char *e = getenv("VF_EXCLUDE")) {
        std::string s = e, cur;
        for (char ch : s) { if (ch == ',') { g_exclude.push_back(cur); cur.clear(); } else cur.push_back(ch); }
        if (!cur.empty()) g_exclude.push_back(cur);
    }
    if (const char *e = getenv("VF_CASE_CPU")) g_cpu = atof(e);
}
}  // namespace

#ifdef VF_FUZZ
// ------------------------------------------------------------------ libFuzzer driver
static bool g_fz_init = false;
static void fz_atexit() { write_stats({}, nullptr, "done"); }
extern "C" int LLVMFuzzerTestOneInput(const uint8_t *data, size_t size) {
    if (!g_fz_init) {
        g_fz_init = true;
        common_env();
        g_ctx.mode = getenv("VF_MODE") ? getenv("VF_MODE") : "";
        g_ctx.tier = getenv("VF_TIER") && !strcmp(getenv("VF_TIER"), "thorough") ? 1 : 0;
        if (const char *o = getenv("VF_OUT")) g_out = o;
        if (const char *o = getenv("VF_FAILDIR")) g_faildir = o;
        if (!vf_configure(g_ctx)) { fprintf(stderr, "unknown mode %s\n", g_ctx.mode.c_str()); _exit(2); }
        install_handlers();
        atexit(fz_atexit);
    }
    FailInfo fi;
    if (!exec_case(data, size, fi)) {
        fprintf(stderr, "VF-FAIL sig=%s cls=%s msg=%s\nVF-TRACE %s\n", fi.sig.c_str(), fi.cls.c_str(), fi.msg.c_str(), fi.trace.c_str());
        std::vector<FailInfo> v{fi};
        write_stats(v, nullptr, "fail");
        __builtin_trap();
    }
    if ((G.evaluations & 0x3fff) == 0) write_stats({}, nullptr, "running");
    return 0;
}
#else
// ------------------------------------------------------------------ pbt / replay / enum
static int usage() { fprintf(stderr, "usage: <bin> pbt|replay|enum --mode ID [--out f] [--faildir d] [--scale K] [--tier t] [--variant i] [file] [-v]\n"); return 2; }

int main(int argc, char **argv) {
    if (argc < 2) return usage();
    std::string cmd = argv[1], file;
    double scale = 20.0;
    for (int i = 2; i < argc; i++) {
        std::string a = argv[i];
        auto next = [&]() -> std::string { return i + 1 < argc ? argv[++i] : ""; };
        if (a == "--mode") g_ctx.mode = next();
        else if (a == "--out") g_out = next();
        else if (a == "--faildir") g_faildir = next();
        else if (a == "--scale") scale = atof(next().c_str());
        else if (a == "--tier") g_ctx.tier = next() == "thorough" ? 1 : 0;
        else if (a == "--variant") g_ctx.variant = strtoull(next().c_str(), nullptr, 10);
        else if (a == "-v") g_ctx.verbose = true;
        else file = a;
    }
    common_env();
    if (!vf_configure(g_ctx)) { fprintf(stderr, "harness %s: unknown mode '%s'\n", vf_harness_name, g_ctx.mode.c_str()); return 2; }
    install_handlers();

    if (cmd == "replay") {
        std::ifstream in(file, std::ios::binary);
        if (!in) { fprintf(stderr, "cannot read %s\n", file.c_str()); return 2; }
        std::vector<uint8_t> b((std::istreambuf_iterator<char>(in)), std::istreambuf_iterator<char>());
        if (!getenv("VF_REPLAY_KEEP_EXCLUDE")) g_exclude.clear();     // a plain replay shows recorded findings too; the driver's confirmation replays do not count them
        FailInfo fi;
        bool ok = exec_case(b.data(), b.size(), fi);
        if (!g_ctx.verbose) printf("TRACE %s\n", g_ctx.trace.c_str());
        if (ok) { printf("RESULT: PASS%s\n", G.stopped_other ? " (abandoned: failure of another property's class)" : ""); return 0; }
        printf("RESULT: FAIL cls=%s sig=%s\n  %s\n", fi.cls.c_str(), fi.sig.c_str(), fi.msg.c_str());
        return 1;
    }
    if (cmd == "enum") {
        EnumStats es;
        std::vector<FailInfo> fails;
        if (!vf_enumerate) { fprintf(stderr, "no enumerator in %s\n", vf_harness_name); return 2; }
        int sig = 0;
        try { sig = guarded([&] { vf_enumerate(g_ctx, es); }, 0); }
        catch (CaseFail &f) { FailInfo fi; fi.sig = f.sig; fi.msg = f.msg; fi.cls = cls_name(f.cls); fi.trace = g_ctx.trace; fails.push_back(fi); }
        catch (CaseStop &st) { G.stops[st.why]++; es.complete = false; }
        if (sig) { FailInfo fi; fi.sig = std::string("crash:") + signame(sig); fi.cls = "CRASH"; fi.msg = "fatal signal inside the enumerator: " + g_ctx.trace.substr(0, 400); fi.trace = g_ctx.trace; fails.push_back(fi); }
        for (auto &kv : g_ctx.tags) G.tags[kv.first] += kv.second;
        G.evaluations = es.evaluations;
        for (auto &fi : fails) {
            // the enumerator stores the failing history as text in trace; it is its own replay
            if (!g_faildir.empty()) { std::string p = g_faildir + "/enum-" + g_ctx.mode + "-" + vf_harness_name + ".txt"; FILE *f = fopen(p.c_str(), "w"); if (f) { fprintf(f, "%s\n%s\n%s\n", fi.sig.c_str(), fi.msg.c_str(), fi.trace.c_str()); fclose(f); } }
        }
        write_stats(fails, &es, fails.empty() ? "done" : "fail");
        return fails.empty() ? 0 : 1;
    }
    if (cmd != "pbt") return usage();

    FailInfo last;
    clock_t shrink_t0 = 0;
    double shrink_secs = getenv("VF_SHRINK_SECS") ? atof(getenv("VF_SHRINK_SECS")) : 25.0;
    bool ok = rc::check(std::string(vf_harness_name) + "/" + g_ctx.mode, [&]() {
        auto bytes = *rc::gen::scale(scale, rc::gen::arbitrary<std::vector<uint8_t>>());
        // shrink budget: once spent, every further shrink candidate is reported as passing so
        // that rapidcheck settles on the smallest failure found so far (affects minimality only)
        if (g_failed_once && ((double)(clock() - shrink_t0) / CLOCKS_PER_SEC > shrink_secs || g_tainted)) return;
        FailInfo fi;
        if (!exec_case(bytes.data(), bytes.size(), fi)) {
            if (!g_failed_once) { g_failed_once = true; shrink_t0 = clock(); if (g_cpu > 3) g_cpu = 3; }
            last = fi;
            RC_FAIL(fi.sig + ": " + fi.msg);
        }
    });
    std::vector<FailInfo> fails;
    if (!ok && g_failed_once) {
        std::string p = save_fail(last, "pbt");
        last.msg += " [replay=" + p + "]";
        fails.push_back(last);
        fprintf(stderr, "VF-FAIL sig=%s cls=%s file=%s\n  %s\n", last.sig.c_str(), last.cls.c_str(), p.c_str(), last.msg.c_str());
    }
    write_stats(fails, nullptr, ok ? "done" : "fail");
    if (const char *cf = getenv("VF_CURFILE")) unlink(cf);
    if (!fails.empty()) { std::string p = g_out + ".fail"; FILE *f = fopen(p.c_str(), "w"); if (f) { fprintf(f, "%s\n", save_fail(last, "pbt").c_str()); fclose(f); } }
    return ok ? 0 : 1;
}
#endif
