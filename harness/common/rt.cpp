// rt.cpp - runtime services shared by all harness binaries: Ctx methods, sanitizer report
// hooks, crash / CPU-time guard, small helpers.
#include <dirent.h>
#include <unistd.h>
#include "vf.hpp"
#include <csetjmp>
#include <cerrno>
#include <csignal>
#include <execinfo.h>
#include <pthread.h>
#include <sys/time.h>
#include <unistd.h>

extern "C" {
const char *__asan_get_report_description(void) __attribute__((weak));
void *__asan_get_report_pc(void) __attribute__((weak));
void __sanitizer_symbolize_pc(void *pc, const char *fmt, char *out, size_t len) __attribute__((weak));
void __ubsan_get_current_report_data(const char **k, const char **m, const char **f, unsigned *l,
                                     unsigned *c, char **a) __attribute__((weak));
}

namespace vf {

volatile int g_san_reports = 0;
char g_san_last[512] = "";
bool g_tainted = false;

const char *cls_name(uint32_t c) {
    switch (c) {
        case FUNC: return "FUNC"; case SHAPE: return "SHAPE"; case ITER: return "ITER";
        case NEAR: return "NEAR"; case MEM: return "MEM"; case LEAK: return "LEAK";
        case COPY: return "COPY"; case HANG: return "HANG"; case CRASH: return "CRASH";
        case LOCK: return "LOCK"; case ATOM: return "ATOM"; case LIN: return "LIN";
        case COST: return "COST"; case IMAGE: return "IMAGE";
    }
    return "?";
}

std::string strf(const char *fmt, ...) {
    char buf[2048];
    va_list ap; va_start(ap, fmt); vsnprintf(buf, sizeof buf, fmt, ap); va_end(ap);
    return buf;
}

std::string hexs(const void *p, size_t n, size_t cap) {
    // printable strings are shown quoted, mostly-printable ones C-escaped, binary data as hex
    const unsigned char *b = (const unsigned char *)p;
    std::string o;
    size_t m = n < cap ? n : cap, plain = 0, soft = 0;
    for (size_t i = 0; i < m; i++) { if (b[i] >= 0x20 && b[i] <= 0x7e && b[i] != '"' && b[i] != '\\') plain++; else if (b[i] == '\n' || b[i] == '\t' || b[i] == '\r' || b[i] == '"' || b[i] == '\\' || b[i] == 0) soft++; }
    static const char *hx = "0123456789abcdef";
    if (n > 0 && plain == m) o = "'" + std::string((const char *)b, m) + "'";
    else if (n > 0 && (plain + soft) * 10 >= m * 8 && plain > 0) {
        o = "\"";
        for (size_t i = 0; i < m; i++) {
            unsigned char ch = b[i];
            if (ch == '\n') o += "\\n"; else if (ch == '\t') o += "\\t"; else if (ch == '\r') o += "\\r"; else if (ch == '"') o += "\\\""; else if (ch == '\\') o += "\\\\";
            else if (ch >= 0x20 && ch <= 0x7e) o.push_back((char)ch);
            else { o += "\\x"; o.push_back(hx[ch >> 4]); o.push_back(hx[ch & 15]); }
        }
        o += "\"";
    } else { o = "x"; for (size_t i = 0; i < m; i++) { o.push_back(hx[b[i] >> 4]); o.push_back(hx[b[i] & 15]); } }
    if (n > cap) o += strf("..(%zu)", n);
    return o;
}

uint64_t fnv64(const void *p, size_t n, uint64_t h) {
    const unsigned char *b = (const unsigned char *)p;
    for (size_t i = 0; i < n; i++) { h ^= b[i]; h *= 0x100000001b3ull; }
    return h;
}

// Fills the stack region that the next library call's frames will occupy with a byte pattern, so
// that a read of an uninitialised local sees 0x41.. (a wild pointer, a huge count, a "true") and
// not whatever the previous call happened to leave there - in practice a tidy NULL/0 - and the
// dependence becomes a visible failure.  Most effective in the -O0 build flavour ("asan0"),
// where every local lives in its stack slot.
__attribute__((noinline)) void dirty_stack() {
    volatile char junk[48 * 1024];
    memset((void *)junk, 0x41, sizeof junk);
    __asm__ volatile("" ::: "memory");
}

void Ctx::op(const char *fmt, ...) {
    opno++;
    dirty_stack();
    if (g_errno_repoison) errno = g_errno_poison;   // a routine must not judge by an errno value it did not cause itself
    if (!verbose && trace.size() > 6000) return;
    char buf[512];
    va_list ap; va_start(ap, fmt); vsnprintf(buf, sizeof buf, fmt, ap); va_end(ap);
    if (verbose) { printf("  [%d] %s\n", opno, buf); fflush(stdout); }
    if (trace.size() <= 6000) { if (!trace.empty()) trace += "; "; trace += buf; if (trace.size() > 6000) trace += " ..."; }
}

static int g_san_seen = 0;
void Ctx::failv(uint32_t cls, const char *sig, const char *fmt, va_list ap) {
    char buf[2048];
    vsnprintf(buf, sizeof buf, fmt, ap);
    if (deciding & cls) throw CaseFail{sig, buf, cls};
    // about to abandon the case for a failure that is not this mode's business: a pending
    // sanitizer report must not get lost with it when memory errors ARE this mode's business
    if ((deciding & MEM) && !(noteonly & MEM) && g_san_reports != g_san_seen) check_san("the operation that also failed another property's check");
    throw CaseStop{std::string(cls_name(cls)) + ":" + sig};
}

void Ctx::fail(uint32_t cls, const char *sig, const char *fmt, ...) {
    if (noteonly & cls) { tags[std::string("noted_") + cls_name(cls)]++; return; }
    va_list ap; va_start(ap, fmt);
    failv(cls, sig, fmt, ap);
}

// open file descriptors of the process, not counting the ones the harness and the sanitizer runtime
// open lazily themselves (/dev/null for debug output, the sanitizer log, pipes, the terminal)
int count_open_fds(std::string *what) {
    int n = 0; DIR *d = opendir("/proc/self/fd"); if (!d) return -1;
    int self = dirfd(d);
    while (struct dirent *e = readdir(d)) {
        if (e->d_name[0] == '.') continue;
        if (atoi(e->d_name) == self) continue;
        char path[64], tgt[512]; snprintf(path, sizeof path, "/proc/self/fd/%s", e->d_name);
        ssize_t k = readlink(path, tgt, sizeof tgt - 1); if (k < 0) continue; tgt[k] = 0;
        if (!strncmp(tgt, "/dev/null", 9) || strstr(tgt, "/san.") || strstr(tgt, "/san-") || !strncmp(tgt, "pipe:", 5) || !strncmp(tgt, "/dev/pts", 8) || !strncmp(tgt, "/proc/", 6)) continue;
        n++; if (what) { *what += tgt; *what += " "; }
    }
    closedir(d); return n;
}

// reports that were raised but never polled (the case crashed or was abandoned first) belong to
// the case that just ended: they must not be attributed to the next one
std::atomic<unsigned> g_buf_seq{0};
int g_via_members = 0;
int g_errno_poison = 0, g_errno_repoison = 0;
void san_sync() { g_san_seen = g_san_reports; g_buf_seq = 0; }

void Ctx::check_san(const char *where) {
    if (g_san_reports == g_san_seen) return;
    int n = g_san_reports - g_san_seen;
    g_san_seen = g_san_reports;
    tags["sanitizer_reports"] += n;
    if (noteonly & MEM) return;
    fail(MEM, g_san_last, "sanitizer report during %s (op %d): %s", where, opno, g_san_last);
}

// ------------------------------------------------------------ sanitizer hooks
static void first_repo_frame(char *out, size_t n) {
    out[0] = 0;
    if (!__sanitizer_symbolize_pc) return;
    void *pcs[48];
    int k = backtrace(pcs, 48);
    for (int i = 0; i < k; i++) {
        char b[600];
        __sanitizer_symbolize_pc((void *)((char *)pcs[i] - 1), "%f|%s", b, sizeof b);
        const char *bar = strchr(b, '|');
        if (!bar) continue;
        if (strstr(bar, "/src/containers/") || strstr(bar, "/src/utilities/") || strstr(bar, "/src/extensions/") ||
            strstr(bar, "/src/internal/") || strstr(bar, "/src/ipc/")) {
            size_t l = (size_t)(bar - b); if (l >= n) l = n - 1;
            memcpy(out, b, l); out[l] = 0;
            return;
        }
    }
}
}  // namespace vf

extern "C" void __asan_on_error(void) {
    vf::g_san_reports++;
    char fn[200];
    vf::first_repo_frame(fn, sizeof fn);
    snprintf(vf::g_san_last, sizeof vf::g_san_last, "asan:%s:%s",
             __asan_get_report_description ? __asan_get_report_description() : "?", fn[0] ? fn : "?");
}
extern "C" void __ubsan_on_report(void) {
    vf::g_san_reports++;
    const char *k = "?", *m = "", *f = "?"; unsigned l = 0, c = 0; char *a = 0;
    if (__ubsan_get_current_report_data) __ubsan_get_current_report_data(&k, &m, &f, &l, &c, &a);
    char fn[200];
    vf::first_repo_frame(fn, sizeof fn);
    const char *base = strrchr(f ? f : "?", '/'); base = base ? base + 1 : (f ? f : "?");
    snprintf(vf::g_san_last, sizeof vf::g_san_last, "ubsan:%s:%s:%s", k, base, fn[0] ? fn : "?");
}

// ------------------------------------------------------------ crash / CPU guard
namespace vf {
// guards nest (depth <= 8): the innermost armed guard receives the signal.  One virtual
// (process CPU time) timer is shared: an inner guard saves what is left of the outer budget.
static sigjmp_buf g_jb[8];
static volatile sig_atomic_t g_depth = 0;
static pthread_t g_main_thread;

static void on_signal(int sig) {
    if (g_depth > 0 && pthread_equal(pthread_self(), g_main_thread)) {
        int d = g_depth - 1;
        g_depth = d;
        siglongjmp(g_jb[d], sig);
    }
    // not guarded: die with default action
    signal(sig, SIG_DFL);
    raise(sig);
}

void install_handlers() {
    g_main_thread = pthread_self();
    static char altstack[1 << 16];
    stack_t ss; ss.ss_sp = altstack; ss.ss_size = sizeof altstack; ss.ss_flags = 0;
    sigaltstack(&ss, nullptr);
    struct sigaction sa; memset(&sa, 0, sizeof sa);
    sa.sa_handler = on_signal; sa.sa_flags = SA_ONSTACK | SA_NODEFER;
    sigemptyset(&sa.sa_mask);
    int sigs[] = {SIGSEGV, SIGBUS, SIGFPE, SIGILL, SIGABRT, SIGVTALRM};
    for (int s : sigs) sigaction(s, &sa, nullptr);
}

static void set_timer(const struct itimerval &v) { setitimer(ITIMER_VIRTUAL, &v, nullptr); }

int guarded(const std::function<void()> &f, double cpu_seconds) {
    if (g_depth >= 8) { f(); return 0; }
    struct itimerval saved; memset(&saved, 0, sizeof saved);
    getitimer(ITIMER_VIRTUAL, &saved);
    saved.it_interval.tv_sec = 0; saved.it_interval.tv_usec = 0;
    volatile int mydepth = g_depth;
    int sig = sigsetjmp(g_jb[mydepth], 1);
    if (sig != 0) {
        g_depth = mydepth;
        if (sig == SIGABRT) g_tainted = true;   // abort comes out of sanitizer/assert internals
        if (mydepth > 0 && saved.it_value.tv_sec == 0 && saved.it_value.tv_usec == 0) saved.it_value.tv_usec = 1000;
        set_timer(saved);
        return sig;
    }
    g_depth = mydepth + 1;
    struct Restore { int d; struct itimerval sv; ~Restore() { g_depth = d; set_timer(sv); } } restore{mydepth, saved};
    if (cpu_seconds > 0) {
        struct itimerval it; memset(&it, 0, sizeof it);
        it.it_value.tv_sec = (long)cpu_seconds; it.it_value.tv_usec = (long)((cpu_seconds - (long)cpu_seconds) * 1e6);
        set_timer(it);
    }
    f();
    return 0;
}
}  // namespace vf
