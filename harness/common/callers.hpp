// callers.hpp - "concurrent callers" for the stateless utility harnesses (string, codec): the
// routines take no state but their arguments, so N threads working on their own private data at
// the same time must each still get exactly the reference result.  A routine that keeps a static
// scratch buffer or table passes every sequential check and fails here.
//
// Every thread gets a private Ctx (so a failing check throws inside its own thread and is caught
// there) and runs its jobs `rounds` times after a common barrier.  A job that failed is re-run
// alone on the calling thread: if it fails there as well the failure is an ordinary one and
// propagates unchanged; otherwise it is reported as <harness>:concurrent-callers.  In the
// ThreadSanitizer build a race report during the run decides too (<harness>:data-race).
// Include from exactly one translation unit (it defines __tsan_on_report).
#pragma once
#include "vf.hpp"
#include <pthread.h>
#include <signal.h>
#include <atomic>
#include <functional>
#include <vector>

namespace vf {
inline std::atomic<int> g_tsan_reports{0};
using Job = std::function<void(Ctx &)>;

struct CallerArg {
    const std::vector<Job> *jobs; int rounds; pthread_barrier_t *bar; Ctx tc;
    bool failed = false, stopped = false; CaseFail cf; size_t job = 0; int round = 0;
};
inline void *caller_main(void *a) {
    CallerArg *ca = (CallerArg *)a;
    pthread_barrier_wait(ca->bar);
    try {
        for (ca->round = 0; ca->round < ca->rounds; ca->round++)
            for (ca->job = 0; ca->job < ca->jobs->size(); ca->job++) (*ca->jobs)[ca->job](ca->tc);
    } catch (CaseFail &e) { ca->failed = true; ca->cf = e; }
    catch (CaseStop &) { ca->stopped = true; }
    return nullptr;
}

inline void run_concurrent(Ctx &c, const std::vector<std::vector<Job>> &per_thread, int rounds, const char *harness) {
    size_t nt = per_thread.size();
    std::vector<CallerArg> ca(nt);
    pthread_barrier_t bar; pthread_barrier_init(&bar, nullptr, (unsigned)nt);
    for (size_t i = 0; i < nt; i++) {
        ca[i].jobs = &per_thread[i]; ca[i].rounds = rounds; ca[i].bar = &bar;
        ca[i].tc.mode = c.mode; ca[i].tc.deciding = c.deciding; ca[i].tc.noteonly = c.noteonly | MEM; ca[i].tc.tier = c.tier;   // sanitizer reports are polled by the caller afterwards
    }
    int before = g_tsan_reports.load();
    std::vector<pthread_t> th(nt);
    sigset_t all, old; sigfillset(&all); pthread_sigmask(SIG_BLOCK, &all, &old);   // the watchdog signal stays with the calling thread
    for (size_t i = 0; i < nt; i++) pthread_create(&th[i], nullptr, caller_main, &ca[i]);
    pthread_sigmask(SIG_SETMASK, &old, nullptr);
    for (size_t i = 0; i < nt; i++) pthread_join(th[i], nullptr);
    pthread_barrier_destroy(&bar);
    for (size_t i = 0; i < nt; i++) {
        if (!ca[i].failed) continue;
        // alone on this thread: an ordinary failure propagates from here
        for (int r = 0; r < rounds; r++) for (auto &j : per_thread[i]) j(c);
        c.fail(ca[i].cf.cls, (std::string(harness) + ":concurrent-callers").c_str(), "thread %zu of %zu (round %d, job %zu) got a wrong result only while the other threads were calling the library on their own data - sequentially the same calls are right: %s [%s]",
               i, nt, ca[i].round, ca[i].job, ca[i].cf.msg.c_str(), ca[i].cf.sig.c_str());
    }
    int n = g_tsan_reports.load() - before;
    if (n > 0) c.fail(FUNC, (std::string(harness) + ":data-race").c_str(), "ThreadSanitizer reported %d data race(s) between %zu threads that share nothing but the library", n, nt);
}
}  // namespace vf
extern "C" void __tsan_on_report(void *) { vf::g_tsan_reports++; }
