// cont.hpp - shared parts of the container harnesses: ownership bookkeeping for copies the
// library hands out (C12), the "everything observed" hash used by the C12 differential, the
// end-of-case ledger verdict (C11), value generators.
#pragma once
#include "vf.hpp"
#include <cerrno>
#include <unordered_map>
#include "refhash.hpp"

namespace vf {

struct Retained { void *p; std::string expect; const char *what; };

struct ContBase {
    Src &s; Ctx &c;
    bool scribble, retain;
    const char *hn;                              // harness name for signatures
    std::vector<Retained> kept;
    uint64_t obs = 0xcbf29ce484222325ull;
    int copies_outlived = 0;
    int poison = 0;       // errno value on entry to library calls (drawn per case): results must not depend on it
    void draw_poison() { static const int pv[] = {0, ENOMEM, ENOENT, EINVAL, ERANGE, ENOBUFS}; poison = pv[s.range(0, 5)]; }

    ContBase(Src &s_, Ctx &c_, bool scr, bool ret, const char *hn_) : s(s_), c(c_), scribble(scr), retain(ret), hn(hn_) {}
    ~ContBase() { for (auto &r : kept) if (r.p && vf_ledger_has(r.p)) free(r.p); }

    void see(const void *p, size_t n) { obs = fnv64(p, n, obs); obs = fnv64(&n, sizeof n, obs); }
    void seei(long v) { obs = fnv64(&v, sizeof v, obs); }
    std::string sig(const char *tail) { return std::string(hn) + ":" + tail; }

    // a copy returned by the library: must be a live allocation of its own; retained until the
    // end of the case (C12 run B) or freed at once
    void give_back(void *p, const std::string &expect, const char *what) {
        if (!p) return;
        if (!vf_ledger_has(p)) c.fail(COPY, sig("copy-not-own-allocation").c_str(), "%s returned a pointer that is not a live allocation of its own", what);
        if (retain) kept.push_back(Retained{p, expect, what});
        else free(p);
    }
    void verify_kept(bool final) {
        for (auto &r : kept) {
            if (!r.p) continue;
            if (!vf_ledger_has(r.p)) { r.p = nullptr; c.fail(COPY, sig("copy-freed-by-container").c_str(), "block returned by %s was freed by the container (not an independent copy)", r.what); }
            if (memcmp(r.p, r.expect.data(), r.expect.size()) != 0) c.fail(COPY, sig("copy-changed").c_str(), "bytes returned by %s changed after later operations", r.what);
            if (final) { free(r.p); r.p = nullptr; }
        }
        if (final) kept.clear();
    }
    void note_outlived() { if (retain) copies_outlived += (int)kept.size(); }
    void leak_verdict(const char *after) {
        c.check_san(after);
        size_t live = vf_ledger_live();
        if (live) { char d[300]; vf_ledger_dump(d, sizeof d); c.fail(LEAK, sig("leak").c_str(), "%zu block(s), %zu bytes still allocated after %s: %s", live, vf_ledger_bytes(), after, d); }
        vf_ledger_on = 0;
    }

    // text for the *f() variants: now and then exactly around the 1024 * 2^k sizes of the library's
    // grow-and-retry formatting buffer (total formatted length = returned length + extra)
    std::string gen_fmt_text(size_t small_max, size_t extra) {
        if (!s.chance(1, 8)) return gen_val(true, small_max);
        static const size_t edge[] = {16, 32, 64, 128, 256, 512, 1024, 1024, 2048, 4096, 8192};      // plausible internal buffer sizes
        size_t target = edge[s.range(0, 10)] + (size_t)s.range(0, 3) - 2;      // edge-2 .. edge+1
        size_t len = target > extra ? target - extra : 1;
        std::string v; uint32_t x = (uint32_t)s.u8() + 3;
        for (size_t i = 0; i < len; i++) { x = x * 1103515245u + 12345u; v.push_back((char)('a' + (x >> 16) % 26)); }
        return v;
    }

    // value bytes: lengths in three classes, contents zero / 0xff / pseudo-random / text
    std::string gen_val(bool str, size_t maxlen = 300) {
        int klass = s.pick({6, 3, 1});
        size_t len = klass == 0 ? (size_t)s.range(1, 8) : klass == 1 ? (size_t)s.range(9, 64) : (size_t)s.range(65, (long)maxlen);
        if (len > maxlen) len = maxlen;
        if (s.chance(1, 40)) { static const size_t edge[] = {128, 256, 512, 1024, 4096}; len = edge[s.range(0, 4)] + (size_t)s.range(0, 2) - 1; }   // around plausible internal buffer sizes
        int fill = (int)s.range(0, 3);
        uint32_t x = (uint32_t)s.u8() * 2654435761u + 12345u;
        std::string v;
        for (size_t i = 0; i < len; i++) {
            uint8_t b;
            switch (fill) { case 0: b = 0; break; case 1: b = 0xff; break; case 2: x = x * 1103515245u + 12345u; b = (uint8_t)(x >> 16); break; default: x = x * 1103515245u + 12345u; b = (uint8_t)('a' + (x >> 16) % 26); }
            if (str && b == 0) b = 'n';
            v.push_back((char)b);
        }
        if (fill == 3 && !str && len > 2 && (x & 1)) v[len - 1] = 0;   // trailing NUL
        return v;
    }
};

// Pairs of distinct short keys whose full 32-bit MurmurHash3 values are equal (found once per
// process by a birthday search with the harness's own reference implementation): chains and
// name matching must tell such keys apart by their bytes, not by the hash.
inline const std::vector<std::pair<std::string, std::string>> &hash_twins() {
    static std::vector<std::pair<std::string, std::string>> tw;
    if (tw.empty()) {
        std::unordered_map<uint32_t, uint32_t> seen;
        for (uint32_t i = 0; i < 600000 && tw.size() < 4; i++) {
            std::string k = "tw" + std::to_string(i);
            uint32_t h = ref::murmur3_32((const uint8_t *)k.data(), k.size(), 0);
            auto it = seen.find(h);
            if (it != seen.end()) tw.push_back({"tw" + std::to_string(it->second), k}); else seen[h] = i;
        }
        if (tw.empty()) tw.push_back({"tw-none-a", "tw-none-b"});
    }
    return tw;
}

// Runs R once (all modes but C12) or as the C12 metamorphic differential: the same history
// once with caller buffers left alone and copies freed at once, once with every caller buffer
// scribbled + freed right after the call and every returned copy retained to the end.
template <class R>
void run_modes(Src &s, Ctx &c, const char *hn) {
    if (c.mode != "C12") { R r(s, c, false, false); r.run(); return; }
    Src a = s;
    uint64_t obsA; int sanA;
    // "stored values are returned byte-for-byte with their exact length" is part of C12 itself:
    // a value/size mismatch against the model decides here as well (in both runs)
    uint32_t dec0 = c.deciding;
    c.deciding |= FUNC | ITER | NEAR;
    { int s0 = g_san_reports; R r(a, c, false, false); try { r.run(); } catch (...) { c.deciding = dec0; throw; } obsA = r.obs; sanA = g_san_reports - s0; }
    c.deciding = dec0;
    c.trace.clear(); c.opno = 0; c.nontrivial = false; c.tags.clear();
    vf_ledger_reset();
    int s0 = g_san_reports;
    R r(s, c, true, true);
    uint32_t dec = c.deciding;
    std::string sg = std::string(hn) + ":scribble-changes-result";
    try { c.deciding |= FUNC | ITER | NEAR | SHAPE | IMAGE; r.run(); c.deciding = dec; }
    catch (CaseFail &f) {
        c.deciding = dec;
        if (f.cls & (FUNC | ITER | NEAR | SHAPE | IMAGE)) throw CaseFail{sg, "with caller buffers overwritten after each call the history diverges from the undisturbed run: " + f.msg, COPY};
        throw;
    }
    int sanB = g_san_reports - s0;
    if (r.obs != obsA) c.fail(COPY, sg.c_str(), "observed results differ between the undisturbed run and the run with scribbled caller buffers / retained copies");
    if (sanB > sanA) c.fail(COPY, (std::string(hn) + ":retained-copy-memory-error").c_str(), "%d more sanitizer report(s) when copies are retained and caller buffers freed: %s", sanB - sanA, g_san_last);
}

// standard mode table of the container harnesses
inline bool configure_container(Ctx &c, const char *own_mode, uint32_t own_classes) {
    c.noteonly = MEM | LEAK;
    if (c.mode == own_mode) c.deciding = own_classes | CRASH | HANG;
    else if (c.mode == "C11") { c.deciding = MEM | LEAK | CRASH; c.noteonly = 0; }
    else if (c.mode == "C12") c.deciding = COPY | CRASH;
    else return false;
    return true;
}

}  // namespace vf
