// wrap.cpp - link-time wrappers (-Wl,--wrap=...) around the allocator, the three pthread
// / libc entry points that make up Q_MUTEX_ENTER / Q_MUTEX_LEAVE, and popen.
//
//  * allocation ledger: every block the library allocates while vf_ledger_on is set is
//    recorded; free()/realloc() remove it.  After the container has been released the
//    ledger must be empty (exact per-case leak verdict).
//  * fault injection: the k-th allocation after arm_fail(k) returns NULL with ENOMEM.
//  * mutex hooks: lock-depth accounting (C14) and the deterministic scheduler (C13).
//  * popen is replaced by a stub so that `${!cmd}` in INI input can never run a command.
#include <cstdlib>
#include <cstring>
#include <cerrno>
#include <cstdio>
#include <unordered_map>
#include <pthread.h>

extern "C" {
void *__real_malloc(size_t);
void *__real_calloc(size_t, size_t);
void *__real_realloc(void *, size_t);
void __real_free(void *);
char *__real_strdup(const char *);
int __real_pthread_mutex_trylock(pthread_mutex_t *);
int __real_pthread_mutex_unlock(pthread_mutex_t *);
int __real_usleep(unsigned);
char *__real_qstrreplace(const char *mode, char *srcstr, const char *tokstr, const char *word);

int vf_ledger_on = 0;
long vf_alloc_count = 0;
long vf_fail_at = 0;
int vf_fail_sticky = 0;
long vf_failed_count = 0;
long vf_popen_calls = 0;
int (*vf_hook_trylock)(void *m, int (*real)(void *)) = nullptr;
int (*vf_hook_unlock)(void *m, int (*real)(void *)) = nullptr;
int (*vf_hook_usleep)(unsigned us) = nullptr;
}

namespace {
struct Rec { size_t size; long seq; };
std::unordered_map<void *, Rec> *g_led;
long g_seq = 0;
pthread_mutex_t g_mu = PTHREAD_MUTEX_INITIALIZER;
thread_local int g_busy = 0;

// pthread_mutex_lock itself is not wrapped (qlibc only uses trylock); unlock is, so go
// straight to the real one.
struct Lock { Lock() { pthread_mutex_lock(&g_mu); } ~Lock() { __real_pthread_mutex_unlock(&g_mu); } };

bool inject() {
    if (!vf_ledger_on && vf_fail_at == 0) return false;
    long n = __atomic_add_fetch(&vf_alloc_count, 1, __ATOMIC_SEQ_CST);
    if (vf_fail_at > 0 && (n == vf_fail_at || (vf_fail_sticky && n >= vf_fail_at))) {
        vf_failed_count++;
        errno = ENOMEM;
        return true;
    }
    return false;
}
void rec_add(void *p, size_t n) {
    if (!p || !vf_ledger_on || g_busy) return;
    g_busy++;
    { Lock l; if (!g_led) g_led = new std::unordered_map<void *, Rec>(); (*g_led)[p] = Rec{n, ++g_seq}; }
    g_busy--;
}
void rec_del(void *p) {
    if (!p || g_busy || !g_led) return;
    g_busy++;
    { Lock l; g_led->erase(p); }
    g_busy--;
}
}  // namespace

extern "C" {
// Contents of fresh malloc memory are indeterminate: the driver picks a fill byte per case
// (vf_malloc_fill, -1 = leave it to the allocator / ASan's 0xbe) so that code which reads such
// memory before writing it sees different values in different cases instead of one lucky constant.
int vf_malloc_fill = -1;
void *__wrap_malloc(size_t n) {
    if (g_busy) return __real_malloc(n);
    if (inject()) return nullptr;
    void *p = __real_malloc(n);
    if (p && vf_malloc_fill >= 0 && n <= (1u << 20)) memset(p, vf_malloc_fill, n);
    rec_add(p, n);
    return p;
}
void *__wrap_calloc(size_t a, size_t b) {
    if (g_busy) return __real_calloc(a, b);
    if (inject()) return nullptr;
    void *p = __real_calloc(a, b);
    rec_add(p, a * b);
    return p;
}
void *__wrap_realloc(void *old, size_t n) {
    if (g_busy) return __real_realloc(old, n);
    if (inject()) return nullptr;
    void *p = __real_realloc(old, n);
    if (p || n == 0) { rec_del(old); rec_add(p, n); }
    return p;
}
char *__wrap_strdup(const char *s) {
    if (g_busy) return __real_strdup(s);
    if (inject()) return nullptr;
    char *p = __real_strdup(s);
    rec_add(p, p ? strlen(p) + 1 : 0);
    return p;
}
void __wrap_free(void *p) {
    rec_del(p);
    __real_free(p);
}

size_t vf_ledger_live(void) { Lock l; return g_led ? g_led->size() : 0; }
size_t vf_ledger_bytes(void) { Lock l; size_t t = 0; if (g_led) for (auto &kv : *g_led) t += kv.second.size; return t; }
void vf_ledger_reset(void) { g_busy++; { Lock l; if (g_led) g_led->clear(); g_seq = 0; } g_busy--; }
int vf_ledger_has(void *p) { Lock l; return g_led && g_led->count(p) ? 1 : 0; }
void vf_ledger_dump(char *out, size_t n) {
    Lock l;
    size_t o = 0; out[0] = 0;
    if (!g_led) return;
    int k = 0;
    for (auto &kv : *g_led) {
        int w = snprintf(out + o, n - o, "%s[alloc#%ld %zuB]", k ? " " : "", kv.second.seq, kv.second.size);
        if (w < 0 || (size_t)w >= n - o) break;
        o += (size_t)w;
        if (++k >= 8) break;
    }
}

static int real_trylock(void *m) { return __real_pthread_mutex_trylock((pthread_mutex_t *)m); }
static int real_unlock(void *m) { return __real_pthread_mutex_unlock((pthread_mutex_t *)m); }

int __wrap_pthread_mutex_trylock(pthread_mutex_t *m) {
    if (vf_hook_trylock && !g_busy) return vf_hook_trylock(m, real_trylock);
    return __real_pthread_mutex_trylock(m);
}
int __wrap_pthread_mutex_unlock(pthread_mutex_t *m) {
    if (vf_hook_unlock && !g_busy && m != &g_mu) return vf_hook_unlock(m, real_unlock);
    return __real_pthread_mutex_unlock(m);
}
int __wrap_usleep(unsigned us) {
    if (vf_hook_usleep) return vf_hook_usleep(us);
    return __real_usleep(us);
}

// progress budget for the INI ${} expansion loop: qconfig calls qstrreplace("sn",...) once per
// expansion round.  Over budget the wrapper returns an empty string, which makes the library's
// loop end normally (no leak, no longjmp), and flags the case.
long vf_replace_budget = 0;      // 0 = off
long vf_replace_calls = 0;
long vf_replace_bytes = 0;
int vf_replace_exceeded = 0;
char *__wrap_qstrreplace(const char *mode, char *srcstr, const char *tokstr, const char *word) {
    if (vf_replace_budget > 0 && mode && mode[0] == 's' && mode[1] == 'n' && srcstr) {
        vf_replace_calls++;
        vf_replace_bytes += (long)strlen(srcstr);
        // the result this round would have: unbounded growth shows here one round before it becomes a
        // multi-gigabyte allocation
        size_t tl = tokstr ? strlen(tokstr) : 0, wl = word ? strlen(word) : 0, occ = 0;
        if (tl) for (const char *q = srcstr; *q;) { if (*q == tokstr[0] && memcmp(q, tokstr, tl <= strnlen(q, tl) ? tl : 1) == 0 && strnlen(q, tl) == tl) { occ++; q += tl; } else q++; }   // (no strstr: its sanitizer interceptor measures the whole haystack on every call)
        size_t result = strlen(srcstr) + (wl > tl ? occ * (wl - tl) : 0);
        if (vf_replace_calls > vf_replace_budget || vf_replace_bytes > (8L << 20) || strlen(srcstr) > (1u << 20) || result > (8u << 20)) {
            vf_replace_exceeded = 1;
            return __real_strdup("");
        }
    }
    return __real_qstrreplace(mode, srcstr, tokstr, word);
}

// popen stub: never execute anything from fuzzed configuration text
FILE *__wrap_popen(const char *cmd, const char *mode) {
    (void)cmd; (void)mode;
    vf_popen_calls++;
    errno = ENOSYS;
    return nullptr;
}
}
