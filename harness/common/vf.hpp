// vf.hpp - common harness runtime for the qlibc property checks.
//
// Every harness is one function  void run_case(vf::Src&, vf::Ctx&)  that decodes a byte
// string (the "choice source") into a test case, executes it against the real library and
// an explicit oracle, and reports through Ctx.  Three drivers feed it: rapidcheck (pbt),
// libFuzzer (fuzz) and plain replay.  See DESIGN.md section 2.
#pragma once
#include <cstdint>
#include <cstddef>
#include <cstdarg>
#include <cstdio>
#include <cstdlib>
#include <cstring>
#include <string>
#include <atomic>
#include <vector>
#include <map>
#include <set>
#include <functional>

namespace vf {

// ---------------------------------------------------------------- failure classes
enum Cls : uint32_t {
    FUNC  = 1u << 0,   // functional disagreement with the reference model
    SHAPE = 1u << 1,   // structural invariant broken (LLRB shape, slot graph, links)
    ITER  = 1u << 2,   // traversal wrong
    NEAR  = 1u << 3,   // nearest-key search wrong
    MEM   = 1u << 4,   // sanitizer report / canary / guard byte damage
    LEAK  = 1u << 5,   // allocation ledger not empty after release
    COPY  = 1u << 6,   // ownership / copy independence broken
    HANG  = 1u << 7,   // progress budget or CPU watchdog exceeded
    CRASH = 1u << 8,   // fatal signal inside a library call
    LOCK  = 1u << 9,   // lock depth not restored / lock leaked
    ATOM  = 1u << 10,  // allocation failure not atomic / not reported
    LIN   = 1u << 11,  // not linearizable
    COST  = 1u << 12,  // lookup comparison bound exceeded
    IMAGE = 1u << 13,  // static table image not relocatable / self contained
    ALLCLS = 0xffffffffu
};
const char *cls_name(uint32_t c);

struct CaseFail { std::string sig, msg; uint32_t cls; };
struct CaseStop { std::string why; };   // non-deciding failure: case is abandoned, not a verdict

// ---------------------------------------------------------------- choice source
class Src {
  public:
    Src(const uint8_t *d, size_t n) : d_(d), n_(n) {}
    bool exhausted() const { return p_ >= n_; }
    size_t consumed() const { return p_; }
    size_t size() const { return n_; }
    uint64_t hash() const { return h_; }
    // uniform-ish integer in [lo,hi]; lo when the bytes ran out (minimal choice)
    int64_t range(int64_t lo, int64_t hi) {
        if (hi <= lo) { mix(0); return lo; }
        uint64_t span = (uint64_t)(hi - lo) + 1;
        uint64_t raw = 0;
        int nb = span <= 0x100 ? 1 : span <= 0x10000 ? 2 : span <= 0x100000000ull ? 4 : 8;
        for (int i = 0; i < nb; i++) raw |= (uint64_t)byte() << (8 * i);
        uint64_t v = span ? raw % span : raw;
        mix(v);
        return lo + (int64_t)v;
    }
    bool boolean() { return range(0, 1) == 1; }
    // true with probability num/den
    bool chance(int num, int den) { return range(0, den - 1) < num; }
    // weighted pick: returns index
    int pick(std::initializer_list<int> w) {
        int tot = 0; for (int x : w) tot += x;
        int r = (int)range(0, tot - 1), i = 0;
        for (int x : w) { if (r < x) return i; r -= x; i++; }
        return (int)w.size() - 1;
    }
    int pickv(const std::vector<int> &w) {
        int tot = 0; for (int x : w) tot += x;
        if (tot <= 0) return 0;
        int r = (int)range(0, tot - 1), i = 0;
        for (int x : w) { if (r < x) return i; r -= x; i++; }
        return (int)w.size() - 1;
    }
    uint8_t u8() { uint8_t b = byte(); mix(b); return b; }
    std::string bytes(size_t n) { std::string s; s.reserve(n); for (size_t i = 0; i < n; i++) s.push_back((char)u8()); return s; }
    // rest of the input as raw bytes (parsers)
    std::string rest() { std::string s((const char *)d_ + (p_ < n_ ? p_ : n_), p_ < n_ ? n_ - p_ : 0); for (unsigned char c : s) mix(c); p_ = n_; return s; }
  private:
    uint8_t byte() { return p_ < n_ ? d_[p_++] : (p_++, 0); }
    void mix(uint64_t v) { h_ ^= v + 0x9e3779b97f4a7c15ull + (h_ << 6) + (h_ >> 2); h_ *= 0x100000001b3ull; }
    const uint8_t *d_; size_t n_; size_t p_ = 0; uint64_t h_ = 0xcbf29ce484222325ull;
};

// ---------------------------------------------------------------- per-case context
struct Ctx {
    std::string mode;              // property id this run decides, e.g. "C01"
    uint32_t deciding = ALLCLS;    // classes that are verdicts in this mode
    uint32_t noteonly = 0;         // classes that are merely counted (case continues)
    bool verbose = false;          // replay: print the trace while running
    int tier = 0;                  // 0 quick, 1 thorough
    uint64_t variant = 0;          // per-worker index (enumerated configuration share)

    // per case
    bool nontrivial = false;
    std::string trace;             // decoded operations (capped)
    std::map<std::string, uint64_t> tags;
    uint64_t extra_hash = 0;       // harness may fold decoded structure in
    int opno = 0;

    void reset_case() { nontrivial = false; trace.clear(); tags.clear(); extra_hash = 0; opno = 0; }
    void op(const char *fmt, ...) __attribute__((format(printf, 2, 3)));
    void tag(const char *t, uint64_t n = 1) { tags[t] += n; }
    [[noreturn]] void failv(uint32_t cls, const char *sig, const char *fmt, va_list ap);
    // fail: throws CaseFail when cls decides in this mode, CaseStop otherwise
    void fail(uint32_t cls, const char *sig, const char *fmt, ...) __attribute__((format(printf, 4, 5)));
    bool decides(uint32_t cls) const { return (deciding & cls) != 0; }
    // poll sanitizer report counter; turn new reports into MEM failures / notes
    void check_san(const char *where);
};

// ---------------------------------------------------------------- runtime services (rt.cpp)
// sanitizer report bookkeeping
extern volatile int g_san_reports;          // total reports seen in this process
extern char g_san_last[512];                // signature of the last report
// protected call: runs f under the crash/hang guard; returns 0 ok, else signal number
// (SIGVTALRM = CPU budget exceeded).  After a non-zero return the process state is
// tainted; the case must end.
int guarded(const std::function<void()> &f, double cpu_seconds);
int count_open_fds(std::string *what = nullptr);   // descriptors open now, harness/sanitizer-owned ones excluded
void san_sync();                            // forget sanitizer reports nobody polled (case boundary)
void dirty_stack();                         // pattern-fill the stack below the caller (see rt.cpp)
extern bool g_tainted;
void install_handlers();

// allocation ledger / fault injection (wrap.cpp)
extern "C" {
    extern int vf_malloc_fill;          // byte that fresh malloc blocks are filled with (-1: allocator default)
    extern int vf_ledger_on;            // record allocations made while set
    extern long vf_alloc_count;         // allocations seen since last arm
    extern long vf_fail_at;             // fail the k-th allocation from now (1-based); 0 = off
    extern int vf_fail_sticky;          // if set every allocation from k on fails
    extern long vf_failed_count;        // number of injected failures
    size_t vf_ledger_live(void);        // live blocks recorded
    size_t vf_ledger_bytes(void);
    void vf_ledger_reset(void);         // forget everything (case start)
    void vf_ledger_dump(char *out, size_t n);
    int  vf_ledger_has(void *p);
    // mutex hooks (NULL = pass through)
    extern int (*vf_hook_trylock)(void *m, int (*real)(void *));
    extern int (*vf_hook_unlock)(void *m, int (*real)(void *));
    extern int (*vf_hook_usleep)(unsigned us);
    extern long vf_popen_calls;
    extern long vf_replace_budget, vf_replace_calls, vf_replace_bytes;
    extern int vf_replace_exceeded;
}
inline void arm_fail(long k, bool sticky = false) { vf_alloc_count = 0; vf_fail_at = k; vf_fail_sticky = sticky; vf_failed_count = 0; }
inline void disarm_fail() { vf_fail_at = 0; vf_fail_sticky = 0; }

// exact-size heap copy of caller data (new[] so it is not in the ledger); ASan red zones
// make any access past it visible
// Caller-side argument buffer, exactly sized at its end (so that ASan sees any over-read) and placed at a
// rotating misalignment of 0..3 bytes from its allocation: the same key or value reaches the library through
// pointers of different alignment within one case (malloc alone would always hand out 16-aligned ones).  The
// rotation counter restarts with every case (g_buf_seq, reset by the drivers), so a case stays a pure function
// of its bytes.
extern std::atomic<unsigned> g_buf_seq;
extern int g_errno_poison;   // per-case errno value (a function of the case bytes) left behind "by an earlier, unrelated call"
extern int g_errno_repoison; // set by the stateless-utility harnesses: Ctx::op() re-installs the poison before every operation
extern int g_via_members;     // this case calls the containers through their member pointers (common/via_members.hpp)
struct Buf {
    uint8_t *p = nullptr; size_t n = 0; uint8_t *base = nullptr;
    Buf() {}
    Buf(const void *d, size_t len) { set(d, len); }
    Buf(const std::string &s) { set(s.data(), s.size()); }
    Buf(const Buf &) = delete; Buf &operator=(const Buf &) = delete;
    void set(const void *d, size_t len) { delete[] base; n = len; unsigned q = g_buf_seq.fetch_add(1, std::memory_order_relaxed); size_t off = (q * 7u / 4u) & 3u; base = new uint8_t[off + (len ? len : 1)]; p = base + off; if (len) memcpy(p, d, len); }
    // C string copy (with terminating NUL) of s
    static Buf *cstr(const std::string &s) { Buf *b = new Buf(); b->set(s.c_str(), s.size() + 1); return b; }
    void scribble() { if (p) memset(p, 0xA5, n); }
    ~Buf() { delete[] base; }
    char *c() { return (char *)p; }
};

// known-finding exclusion (signatures from KNOWN_FINDINGS.txt via VF_EXCLUDE); enumerators use
// these to keep going behind a listed finding, counting what they skipped
bool is_excluded(const std::string &sig);
void count_excluded(const std::string &sig);

std::string hexs(const void *p, size_t n, size_t cap = 24);
inline std::string hexs(const std::string &s, size_t cap = 24) { return hexs(s.data(), s.size(), cap); }
std::string strf(const char *fmt, ...) __attribute__((format(printf, 1, 2)));
uint64_t fnv64(const void *p, size_t n, uint64_t h = 0xcbf29ce484222325ull);

}  // namespace vf

// provided by each harness
extern const char *vf_harness_name;
void run_case(vf::Src &s, vf::Ctx &c);
// mode → deciding class mask; returns false for an unknown mode
bool vf_configure(vf::Ctx &c);
// optional bounded-exhaustive enumerator: returns number of evaluations, fills ctx stats via
// the same fail() protocol (throws CaseFail)
struct EnumStats { uint64_t evaluations = 0, states = 0, transitions = 0, nontrivial = 0; std::vector<std::string> samples; std::map<std::string, uint64_t> extra; bool complete = true; };
bool vf_enumerate(vf::Ctx &c, EnumStats &st) __attribute__((weak));
