// h_hash.cpp - hash functions against independent reference implementations.  Mode C18.
#include "common/vf.hpp"
#include "common/refhash.hpp"
#include <cerrno>
#include <unistd.h>
#include <sys/mman.h>
#include <pthread.h>
#include <signal.h>
#include <atomic>
#include <array>
extern "C" {
#include "qlibc.h"
}
using namespace vf;
const char *vf_harness_name = "hash";

namespace {
struct Result { uint8_t md5[16]; uint32_t m32; uint8_t m128[16]; uint32_t f32; uint64_t f64; bool md5ok, m128ok; };

Result run_lib(const uint8_t *p, size_t n) {
    Result r; memset(&r, 0, sizeof r);
    alignas(16) uint8_t a[16], b[16];
    r.md5ok = qhashmd5(p, n, a); memcpy(r.md5, a, 16);
    r.m32 = qhashmurmur3_32(p, n);
    r.m128ok = qhashmurmur3_128(p, n, b); memcpy(r.m128, b, 16);
    r.f32 = qhashfnv1_32(p, n);
    r.f64 = qhashfnv1_64(p, n);
    return r;
}
void fill(std::string &x, int cls, uint32_t seed) {
    uint32_t v = seed * 2654435761u + 1u;
    for (size_t i = 0; i < x.size(); i++) {
        v = v * 1103515245u + 12345u;
        uint8_t b = (uint8_t)(v >> 16);
        switch (cls) { case 0: break; case 1: b = 0; break; case 2: b = 0xff; break; case 3: if ((v >> 8) % 5 == 0) b = 0; break; default: b = (uint8_t)('a' + b % 26); }
        x[i] = (char)b;
    }
}
// hash x placed so that it ends exactly at the end of a heap block, starting at the given
// alignment; compare with the references
void check_buffer(Ctx &c, const std::string &x, size_t align, const char *ctx) {
    size_t n = x.size();
    size_t pad = align;       // new[] blocks are 16-aligned: data at offset pad has alignment `align` and ends at the block end
    uint8_t *blk = new uint8_t[pad + n];
    struct D { uint8_t *p; ~D() { delete[] p; } } d{blk};
    uint8_t *p = blk + pad;
    memcpy(p, x.data(), n);
    int san0 = g_san_reports;
    Result r = run_lib(p, n);
    if (g_san_reports != san0) c.fail(MEM, g_san_last, "sanitizer report while hashing %zu bytes at alignment %zu (%s): %s", n, align, ctx, g_san_last);
    uint8_t e[16];
    ref::md5((const uint8_t *)x.data(), n, e);
    if (!r.md5ok || memcmp(r.md5, e, 16) != 0) c.fail(FUNC, "hash:md5", "qhashmd5 of %zu bytes (%s, alignment %zu) = %s, RFC 1321 MD5 = %s", n, hexs(x, 12).c_str(), align, ref::hex16(r.md5).c_str(), ref::hex16(e).c_str());
    uint32_t m = ref::murmur3_32((const uint8_t *)x.data(), n, 0);
    if (r.m32 != m) c.fail(FUNC, "hash:murmur3_32", "qhashmurmur3_32 of %zu bytes (%s, alignment %zu) = %08x, MurmurHash3_x86_32 = %08x", n, hexs(x, 12).c_str(), align, r.m32, m);
    ref::murmur3_128((const uint8_t *)x.data(), n, 0, e);
    if (!r.m128ok || memcmp(r.m128, e, 16) != 0) c.fail(FUNC, "hash:murmur3_128", "qhashmurmur3_128 of %zu bytes (%s, alignment %zu) = %s, MurmurHash3_x64_128 = %s", n, hexs(x, 12).c_str(), align, ref::hex16(r.m128).c_str(), ref::hex16(e).c_str());
    uint32_t f = ref::fnv1_32((const uint8_t *)x.data(), n);
    if (r.f32 != f) c.fail(FUNC, "hash:fnv1_32", "qhashfnv1_32 of %zu bytes (%s) = %08x, FNV-1 = %08x", n, hexs(x, 12).c_str(), r.f32, f);
    uint64_t g = ref::fnv1_64((const uint8_t *)x.data(), n);
    if (r.f64 != g) c.fail(FUNC, "hash:fnv1_64", "qhashfnv1_64 of %zu bytes (%s) = %016llx, FNV-1 = %016llx", n, hexs(x, 12).c_str(), (unsigned long long)r.f64, (unsigned long long)g);
}
// the 16-byte result buffer lies inside the bytes being hashed (in-place "d = H(d)", or a record
// whose digest field is part of the hashed span): the digest is still that of the bytes passed in
void check_inplace(Ctx &c, const std::string &x, size_t off) {
    size_t n = x.size();
    if (n < 16) return;
    if (off > n - 16) off = n - 16;
    off &= ~(size_t)15;                                     // keep the result buffer 16-aligned (new[] blocks are)
    uint8_t e[16];
    for (int which = 0; which < 2; which++) {
        uint8_t *blk = new uint8_t[n]; struct D { uint8_t *p; ~D() { delete[] p; } } d{blk};
        memcpy(blk, x.data(), n);
        bool ok = which == 0 ? qhashmd5(blk, n, blk + off) : qhashmurmur3_128(blk, n, blk + off);
        if (which == 0) ref::md5((const uint8_t *)x.data(), n, e); else ref::murmur3_128((const uint8_t *)x.data(), n, 0, e);
        if (!ok || memcmp(blk + off, e, 16) != 0) c.fail(FUNC, which == 0 ? "hash:md5-inplace" : "hash:murmur3_128-inplace", "%s of %zu bytes with the result written into the input at offset %zu = %s, the digest of the bytes passed in is %s", which == 0 ? "qhashmd5" : "qhashmurmur3_128", n, off, ref::hex16(blk + off).c_str(), ref::hex16(e).c_str());
    }
}
// same bytes embedded in a larger buffer at another alignment, followed by other bytes
void check_embedded(Ctx &c, const std::string &x, size_t align, int follow, uint32_t seed) {
    size_t n = x.size();
    std::string big(align + n + 40, '\0');
    fill(big, follow == 0 ? 1 : follow == 1 ? 2 : 0, seed);
    uint8_t *blk = new uint8_t[big.size()];
    struct D { uint8_t *p; ~D() { delete[] p; } } d{blk};
    memcpy(blk, big.data(), big.size());
    memcpy(blk + align, x.data(), n);
    Result a = run_lib(blk + align, n);
    uint8_t *ex = new uint8_t[n]; struct D2 { uint8_t *p; ~D2() { delete[] p; } } d2{ex};
    memcpy(ex, x.data(), n);
    Result b = run_lib(ex, n);
    if (memcmp(a.md5, b.md5, 16) || a.m32 != b.m32 || memcmp(a.m128, b.m128, 16) || a.f32 != b.f32 || a.f64 != b.f64)
        c.fail(FUNC, "hash:depends-on-surroundings", "hash of the same %zu bytes (%s) differs with the buffer's address/alignment %zu or the bytes that follow it (md5 %d m32 %d m128 %d fnv32 %d fnv64 %d)", n, hexs(x, 12).c_str(), align,
               memcmp(a.md5, b.md5, 16) != 0, a.m32 != b.m32, memcmp(a.m128, b.m128, 16) != 0, a.f32 != b.f32, a.f64 != b.f64);
}

std::string g_tmp;
void check_file(Src &s, Ctx &c) {
    int lk = s.pick({3, 3, 2});
    size_t flen = lk == 0 ? (size_t)s.range(0, 200) : lk == 1 ? (size_t)s.range(200, 70000) : (size_t)s.range(70000, 300000);
    std::string content(flen, '\0'); fill(content, (int)s.range(0, 4), (uint32_t)s.range(0, 65535));
    if (g_tmp.empty()) { const char *td = getenv("TMPDIR"); g_tmp = std::string(td ? td : "/dev/shm") + "/vf-hash-" + std::to_string(getpid()) + ".bin"; }
    FILE *f = fopen(g_tmp.c_str(), "wb");
    if (!f) throw CaseStop{"cannot write temp file"};
    if (flen) fwrite(content.data(), 1, flen, f);
    fclose(f);
    int nq = (int)s.range(1, 4);
    c.op("md5_file: %zu-byte file, %d (offset,nbytes) queries", flen, nq);
    for (int i = 0; i < nq; i++) {
        int k = s.pick({3, 3, 2, 2});
        long off, nb;
        if (k == 0) { off = 0; nb = 0; }
        else if (k == 1) { off = s.range(0, (long)flen); nb = s.range(0, (long)flen - off); }
        else if (k == 2) { off = s.range(0, (long)flen); nb = 0; }
        else { off = s.range(0, (long)flen + 10); nb = (long)flen - off + s.range(1, 100); if (nb < 0) nb = 1; }   // out of range
        alignas(16) uint8_t d[16]; memset(d, 0xEE, 16);
        errno = g_errno_poison;
        int fds0 = count_open_fds();
        bool ok = qhashmd5_file(g_tmp.c_str(), (off_t)off, (ssize_t)nb, d);
        int fds1 = count_open_fds();
        if (fds0 >= 0 && fds1 > fds0) c.fail(FUNC, "hash:md5-file-fd-leak", "qhashmd5_file(offset=%ld,nbytes=%ld) on a %zu-byte file returned %d and left %d file descriptor(s) open: after enough such calls every file hash fails", off, nb, flen, (int)ok, fds1 - fds0);
        bool inrange = (size_t)(off + nb) <= flen && (size_t)off <= flen;
        c.op("  md5_file(offset=%ld, nbytes=%ld) -> %d", off, nb, (int)ok);
        if (ok != inrange) c.fail(FUNC, "hash:md5-file-range", "qhashmd5_file(offset=%ld,nbytes=%ld) on a %zu-byte file returned %d, expected %d", off, nb, flen, (int)ok, (int)inrange);
        if (!ok) continue;
        size_t len = nb == 0 ? flen - (size_t)off : (size_t)nb;
        uint8_t e[16]; ref::md5((const uint8_t *)content.data() + off, len, e);
        if (memcmp(d, e, 16) != 0) c.fail(FUNC, "hash:md5-file", "qhashmd5_file(offset=%ld,nbytes=%ld) of a %zu-byte file = %s, MD5 of that range = %s", off, nb, flen, ref::hex16(d).c_str(), ref::hex16(e).c_str());
        if (off > 0 || (nb != 0 && (size_t)nb != flen)) c.nontrivial = true;
    }
    c.check_san("md5_file");
}

// concurrent callers: 2..4 threads hash their own buffers and their own files at the same time,
// several rounds each; every result must still equal the reference for that thread's input (the
// functions take no state but their arguments).  In the ThreadSanitizer build any race report on
// library state decides as well.
std::atomic<int> g_tsan_reports{0};
bool g_conc_only = false;
struct ConcArg { const std::string *buf; std::string path; long off, nb; int rounds; pthread_barrier_t *bar; std::vector<Result> res; std::vector<std::array<uint8_t, 16>> fd; std::vector<int> fok; };
void *conc_worker(void *a) {
    ConcArg *ca = (ConcArg *)a;
    pthread_barrier_wait(ca->bar);
    for (int r = 0; r < ca->rounds; r++) {
        ca->res[(size_t)r] = run_lib((const uint8_t *)ca->buf->data(), ca->buf->size());
        alignas(16) uint8_t d[16]; memset(d, 0, 16);
        ca->fok[(size_t)r] = qhashmd5_file(ca->path.c_str(), (off_t)ca->off, (ssize_t)ca->nb, d) ? 1 : 0;
        memcpy(ca->fd[(size_t)r].data(), d, 16);
    }
    return nullptr;
}
void check_concurrent(Src &s, Ctx &c) {
    int nt = (int)s.range(2, 4), rounds = (int)s.range(2, g_conc_only ? 4 : 8);
    if (g_tmp.empty()) { const char *td = getenv("TMPDIR"); g_tmp = std::string(td ? td : "/dev/shm") + "/vf-hash-" + std::to_string(getpid()) + ".bin"; }
    std::vector<std::string> bufs((size_t)nt), files((size_t)nt);
    std::vector<ConcArg> ca((size_t)nt);
    pthread_barrier_t bar; pthread_barrier_init(&bar, nullptr, (unsigned)nt);
    for (int i = 0; i < nt; i++) {
        size_t n = s.boolean() ? (size_t)s.range(1, 300) : (size_t)s.range(300, g_conc_only ? 20000 : 200000);
        bufs[(size_t)i].assign(n, '\0'); fill(bufs[(size_t)i], (int)s.range(0, 4), (uint32_t)s.range(0, 65535));
        size_t flen = (size_t)s.range(40000, g_conc_only ? 150000 : 600000);         // more than one 32 KiB read block
        files[(size_t)i].assign(flen, '\0'); fill(files[(size_t)i], (int)s.range(0, 4), (uint32_t)s.range(0, 65535));
        ca[(size_t)i].path = g_tmp + ".t" + std::to_string(i);
        FILE *f = fopen(ca[(size_t)i].path.c_str(), "wb");
        if (!f) throw CaseStop{"cannot write temp file"};
        fwrite(files[(size_t)i].data(), 1, flen, f); fclose(f);
        ca[(size_t)i].buf = &bufs[(size_t)i];
        ca[(size_t)i].off = s.boolean() ? 0 : s.range(0, 2000);
        ca[(size_t)i].nb = s.boolean() ? 0 : s.range(32769, (long)flen - ca[(size_t)i].off);
        ca[(size_t)i].rounds = rounds; ca[(size_t)i].bar = &bar;
        ca[(size_t)i].res.resize((size_t)rounds); ca[(size_t)i].fd.resize((size_t)rounds); ca[(size_t)i].fok.assign((size_t)rounds, 0);
    }
    c.op("%d threads x %d rounds: each hashes its own buffer (%zu.. bytes) with all five functions and its own file (%zu.. bytes) with qhashmd5_file, concurrently", nt, rounds, bufs[0].size(), files[0].size());
    int before = g_tsan_reports.load();
    std::vector<pthread_t> th((size_t)nt);
    sigset_t all, old; sigfillset(&all); pthread_sigmask(SIG_BLOCK, &all, &old);       // the watchdog signal stays with the main thread
    for (int i = 0; i < nt; i++) pthread_create(&th[(size_t)i], nullptr, conc_worker, &ca[(size_t)i]);
    pthread_sigmask(SIG_SETMASK, &old, nullptr);
    for (int i = 0; i < nt; i++) pthread_join(th[(size_t)i], nullptr);
    pthread_barrier_destroy(&bar);
    for (int i = 0; i < nt; i++) unlink(ca[(size_t)i].path.c_str());
    for (int i = 0; i < nt; i++) {
        const std::string &x = bufs[(size_t)i]; const std::string &fc = files[(size_t)i];
        uint8_t e5[16], e128[16], ef[16];
        ref::md5((const uint8_t *)x.data(), x.size(), e5);
        ref::murmur3_128((const uint8_t *)x.data(), x.size(), 0, e128);
        uint32_t m = ref::murmur3_32((const uint8_t *)x.data(), x.size(), 0), f32 = ref::fnv1_32((const uint8_t *)x.data(), x.size());
        uint64_t f64 = ref::fnv1_64((const uint8_t *)x.data(), x.size());
        size_t len = ca[(size_t)i].nb == 0 ? fc.size() - (size_t)ca[(size_t)i].off : (size_t)ca[(size_t)i].nb;
        ref::md5((const uint8_t *)fc.data() + ca[(size_t)i].off, len, ef);
        for (int r = 0; r < rounds; r++) {
            const Result &g = ca[(size_t)i].res[(size_t)r];
            const char *bad = nullptr;
            if (!g.md5ok || memcmp(g.md5, e5, 16)) bad = "qhashmd5"; else if (g.m32 != m) bad = "qhashmurmur3_32"; else if (!g.m128ok || memcmp(g.m128, e128, 16)) bad = "qhashmurmur3_128";
            else if (g.f32 != f32) bad = "qhashfnv1_32"; else if (g.f64 != f64) bad = "qhashfnv1_64";
            else if (!ca[(size_t)i].fok[(size_t)r] || memcmp(ca[(size_t)i].fd[(size_t)r].data(), ef, 16)) bad = "qhashmd5_file";
            if (bad) c.fail(FUNC, "hash:concurrent", "%s gave a wrong result in thread %d (round %d) while %d other thread(s) were hashing other data: the result depends on more than the input", bad, i, r, nt - 1);
        }
    }
    int n = g_tsan_reports.load() - before;
    if (n > 0) c.fail(FUNC, "hash:data-race", "ThreadSanitizer reported %d data race(s) between threads hashing unrelated inputs", n);
    c.check_san("concurrent hashing");
    c.nontrivial = true;
    c.tag("concurrent_callers");
}
}  // namespace
extern "C" void __tsan_on_report(void *) { g_tsan_reports++; }

bool vf_configure(Ctx &c) { g_errno_repoison = 1;
    if (c.mode != "C18") return false;
    c.deciding = FUNC | MEM | CRASH | HANG; c.noteonly = LEAK;
    if (const char *w = ref::selftest()) { fprintf(stderr, "reference implementation fails its published vectors: %s\n", w); exit(2); }
    atexit([] { if (!g_tmp.empty()) unlink(g_tmp.c_str()); });
    g_conc_only = getenv("VF_CONC_ONLY") != nullptr;
    return true;
}

void run_case(Src &s, Ctx &c) {
    if (g_conc_only || s.chance(1, 12)) { check_concurrent(s, c); return; }
    if (s.chance(1, 5)) { check_file(s, c); c.tag("file_range"); return; }
    int lk = s.pick({6, 3, 1});
    size_t n = lk == 0 ? (size_t)s.range(1, 64) : lk == 1 ? (size_t)s.range(65, 700) : (size_t)s.range(700, c.tier ? 1 << 20 : 1 << 16);
    size_t align = (size_t)s.range(0, 15);
    int cls = (int)s.range(0, 4);
    std::string x(n, '\0'); fill(x, cls, (uint32_t)s.range(0, 65535));
    c.op("hash %zu bytes, class %d, alignment %zu: %s", n, cls, align, hexs(x, 12).c_str());
    check_buffer(c, x, align, "buffer ends at the end of its heap block");
    check_embedded(c, x, (size_t)s.range(0, 15), (int)s.range(0, 2), (uint32_t)s.range(0, 255));
    if (n >= 16) { size_t off = s.boolean() ? 0 : (size_t)s.range(0, (long)n - 16); check_inplace(c, x, off); c.tag("result_buffer_inside_the_input"); }
    c.check_san("hash");
    bool hasnul = x.find('\0') != std::string::npos;
    c.nontrivial = (n % 16 != 0) || hasnul;
    c.tag(hasnul ? "input_with_NUL" : "input_without_NUL");
}

// deterministic sweep: every length 1..600 x alignment 0..15 x 5 content classes
bool vf_enumerate(Ctx &c, EnumStats &st) {
    int shard = 0, nshards = 1;
    if (const char *e = getenv("VF_ENUM_SHARD")) sscanf(e, "%d/%d", &shard, &nshards);
    size_t maxlen = c.tier ? 600 : 300;
    uint64_t idx = 0;
    for (size_t n = 1; n <= maxlen; n++)
        for (size_t al = 0; al < 16; al++)
            for (int cls = 0; cls < 5; cls++, idx++) {
                if ((int)(idx % (uint64_t)nshards) != shard) continue;
                std::string x(n, '\0'); fill(x, cls, (uint32_t)(n * 31 + al));
                c.trace = strf("sweep: %zu bytes, class %d, alignment %zu: %s", n, cls, al, hexs(x, 12).c_str());
                check_buffer(c, x, al, "sweep");
                if ((n & 7) == 0) check_embedded(c, x, (al + 5) & 15, cls % 3, (uint32_t)n);
                if (al == 0 && n >= 16) check_inplace(c, x, (n * 7) % (n - 15));
                st.evaluations++; st.nontrivial++;
                if (st.samples.size() < 3 && idx % 7919 == 11) st.samples.push_back(c.trace);
            }
    // very long inputs (the 64-bit bit counter of MD5 crosses 2^32 at 2^29 bytes): an untouched
    // anonymous mapping with a few bytes set, hashed once by the library and once by the
    // streaming reference; one shard does it
    if (shard == 0) {
        static const size_t big[] = {(size_t)1 << 29, ((size_t)1 << 29) - 1, ((size_t)1 << 29) + 5};
        size_t nbig = c.tier ? 3 : 1;
        size_t cap = ((size_t)1 << 29) + 4096;
        uint8_t *m = (uint8_t *)mmap(nullptr, cap, PROT_READ | PROT_WRITE, MAP_PRIVATE | MAP_ANONYMOUS | MAP_NORESERVE, -1, 0);
        if (m != MAP_FAILED) {
            m[0] = 'q'; m[12345] = 0x80; m[((size_t)1 << 29) - 2] = 7;
            for (size_t i = 0; i < nbig; i++) {
                size_t n = big[i];
                c.trace = strf("huge input: %zu bytes (2^29%+ld)", n, (long)n - (1L << 29));
                alignas(16) uint8_t d[16]; uint8_t e[16];
                bool ok = qhashmd5(m, n, d);
                ref::md5(m, n, e);
                if (!ok || memcmp(d, e, 16) != 0) { munmap(m, cap); c.fail(FUNC, "hash:md5", "qhashmd5 of %zu bytes = %s, RFC 1321 MD5 = %s", n, ref::hex16(d).c_str(), ref::hex16(e).c_str()); }
                uint32_t f = qhashfnv1_32(m, n), fr = ref::fnv1_32(m, n);
                if (f != fr) { munmap(m, cap); c.fail(FUNC, "hash:fnv1_32", "qhashfnv1_32 of %zu bytes = %08x, FNV-1 = %08x", n, f, fr); }
                uint32_t mm = qhashmurmur3_32(m, n), mr = ref::murmur3_32(m, n, 0);
                if (mm != mr) { munmap(m, cap); c.fail(FUNC, "hash:murmur3_32", "qhashmurmur3_32 of %zu bytes = %08x, MurmurHash3_x86_32 = %08x", n, mm, mr); }
                st.evaluations++; st.nontrivial++;
                st.samples.push_back(c.trace);
            }
            munmap(m, cap);
            st.extra["max_huge_input_bytes"] = (uint64_t)big[nbig > 2 ? 2 : 0];
        }
    }
    st.states = st.evaluations;
    st.extra["max_length"] = maxlen;
    return true;
}
