// h_string.cpp - qstring utilities against straightforward reference definitions, with exact-size
// heap buffers and guard bytes.  Mode C19.
#include "common/vf.hpp"
#include "common/callers.hpp"
#include <cerrno>
#include <cctype>
extern "C" {
#include "qlibc.h"
}
using namespace vf;
const char *vf_harness_name = "string";

namespace {
const unsigned char GUARD = 0xE7;
// heap buffer of exactly cap bytes holding the C string s (cap >= s.size()+1)
struct HB {
    char *p; size_t cap;
    HB(const std::string &s, size_t cap_ = 0) { cap = cap_ ? cap_ : s.size() + 1; p = new char[cap]; memset(p, GUARD, cap); memcpy(p, s.c_str(), s.size() + 1); }
    ~HB() { delete[] p; }
    std::string str() const { return std::string(p); }
};
bool blank(char ch) { return ch == ' ' || ch == '\t' || ch == '\r' || ch == '\n'; }
std::string ref_trim_head(std::string s) { size_t i = 0; while (i < s.size() && blank(s[i])) i++; return s.substr(i); }
std::string ref_trim_tail(std::string s) { while (!s.empty() && blank(s.back())) s.pop_back(); return s; }
std::string ref_replace(char method, const std::string &src, const std::string &tok, const std::string &word) {
    std::string o;
    if (method == 't') { for (char ch : src) { if (tok.find(ch) != std::string::npos) o += word; else o.push_back(ch); } return o; }
    for (size_t i = 0; i < src.size();) { if (src.compare(i, tok.size(), tok) == 0) { o += word; i += tok.size(); } else o.push_back(src[i++]); }
    return o;
}

std::atomic<uint64_t> g_checked{0};

void chk_trim(Ctx &c, const std::string &s) {
    { HB b(s); char *r = qstrtrim(b.p); std::string w = ref_trim_tail(ref_trim_head(s)); if (r != b.p || b.str() != w) c.fail(FUNC, "string:trim", "qstrtrim(%s) = %s, expected %s", hexs(s).c_str(), hexs(b.str()).c_str(), hexs(w).c_str()); }
    { HB b(s); char *r = qstrtrim_head(b.p); std::string w = ref_trim_head(s); if (r != b.p || b.str() != w) c.fail(FUNC, "string:trim-head", "qstrtrim_head(%s) = %s, expected %s", hexs(s).c_str(), hexs(b.str()).c_str(), hexs(w).c_str()); }
    { HB b(s); char *r = qstrtrim_tail(b.p); std::string w = ref_trim_tail(s); if (r != b.p || b.str() != w) c.fail(FUNC, "string:trim-tail", "qstrtrim_tail(%s) = %s, expected %s", hexs(s).c_str(), hexs(b.str()).c_str(), hexs(w).c_str()); }
    g_checked++;
}
void chk_unchar(Ctx &c, const std::string &s, char head, char tail) {
    HB b(s); char *r = qstrunchar(b.p, head, tail);
    bool match = s.size() >= 2 && s.front() == head && s.back() == tail;
    std::string w = match ? s.substr(1, s.size() - 2) : s;
    if ((r != nullptr) != match || b.str() != w) c.fail(FUNC, "string:unchar", "qstrunchar(%s,'%c','%c') returned %s with buffer %s, expected %s and %s", hexs(s).c_str(), head, tail, r ? "str" : "NULL", hexs(b.str()).c_str(), match ? "str" : "NULL", hexs(w).c_str());
    g_checked++;
}
void chk_revcase(Ctx &c, const std::string &s) {
    { HB b(s); char *r = qstrrev(b.p); std::string w(s.rbegin(), s.rend()); if (r != b.p || b.str() != w) c.fail(FUNC, "string:rev", "qstrrev(%s) = %s", hexs(s).c_str(), hexs(b.str()).c_str()); }
    { HB b(s); qstrupper(b.p); std::string w = s; for (auto &ch : w) if (ch >= 'a' && ch <= 'z') ch = (char)(ch - 32); if (b.str() != w) c.fail(FUNC, "string:upper", "qstrupper(%s) = %s", hexs(s).c_str(), hexs(b.str()).c_str()); }
    { HB b(s); qstrlower(b.p); std::string w = s; for (auto &ch : w) if (ch >= 'A' && ch <= 'Z') ch = (char)(ch + 32); if (b.str() != w) c.fail(FUNC, "string:lower", "qstrlower(%s) = %s", hexs(s).c_str(), hexs(b.str()).c_str()); }
    g_checked++;
}
void chk_replace(Ctx &c, const std::string &src, const std::string &tok, const std::string &word, char method) {
    std::string want = ref_replace(method, src, tok, word);
    { // new buffer
        HB b(src), t(tok), w(word); char mode[3] = {method, 'n', 0};
        char *r = qstrreplace(mode, b.p, t.p, w.p);
        if (!r) c.fail(FUNC, "string:replace-null", "qstrreplace(\"%s\",%s,%s,%s) returned NULL", mode, hexs(src).c_str(), hexs(tok).c_str(), hexs(word).c_str());
        std::string got = r; free(r);
        if (got != want) c.fail(FUNC, "string:replace", "qstrreplace(\"%s\",%s,%s,%s) = %s, expected %s", mode, hexs(src).c_str(), hexs(tok).c_str(), hexs(word).c_str(), hexs(got).c_str(), hexs(want).c_str());
        if (b.str() != src) c.fail(FUNC, "string:replace-src-modified", "mode %s modified the source string", mode);
    }
    { // in place: buffer sized exactly to the larger of input and result
        size_t cap = (src.size() > want.size() ? src.size() : want.size()) + 1;
        HB b(src, cap), t(tok), w(word); char mode[3] = {method, 'r', 0};
        char *r = qstrreplace(mode, b.p, t.p, w.p);
        if (r != b.p) c.fail(FUNC, "string:replace-null", "qstrreplace(\"%s\",...) did not return the source buffer", mode);
        if (b.str() != want) c.fail(FUNC, "string:replace", "qstrreplace(\"%s\",%s,%s,%s) left %s in the buffer, expected %s", mode, hexs(src).c_str(), hexs(tok).c_str(), hexs(word).c_str(), hexs(b.str()).c_str(), hexs(want).c_str());
    }
    g_checked++;
}
void chk_replace_badmode(Ctx &c, const std::string &src, const char *mode) {
    HB b(src), t("a"), w("b");
    char *r = qstrreplace(mode, b.p, t.p, w.p);
    if (r) { if (r != b.p) free(r); c.fail(FUNC, "string:replace-badmode", "qstrreplace with invalid mode \"%s\" returned a string", mode); }
    if (b.str() != src) c.fail(FUNC, "string:replace-badmode", "invalid mode \"%s\" modified the source", mode);
}
void chk_copy(Ctx &c, const std::string &src, size_t size, size_t nbytes, bool useN) {
    // dst has room for `size` bytes followed by 8 guard bytes that must stay untouched
    size_t cap = size + 8;
    char *dst = new char[cap]; memset(dst, GUARD, cap);
    struct D { char *p; ~D() { delete[] p; } } d{dst};
    HB s(src);
    char *r = useN ? qstrncpy(dst, size, s.p, nbytes) : qstrcpy(dst, size, s.p);
    size_t n = useN ? nbytes : src.size();
    if (n >= size) n = size - 1;
    if (r != dst) c.fail(FUNC, "string:copy-ret", "bounded copy did not return dst");
    if (memcmp(dst, src.data(), n) != 0 || dst[n] != '\0') c.fail(FUNC, "string:copy", "%s(dst,%zu,%s%s) wrote %s, expected the first %zu bytes + NUL", useN ? "qstrncpy" : "qstrcpy", size, hexs(src).c_str(), useN ? strf(",%zu", nbytes).c_str() : "", hexs(dst, size < 40 ? size : 40).c_str(), n);
    for (size_t i = n + 1; i < cap; i++) if ((unsigned char)dst[i] != GUARD) c.fail(MEM, "string:copy-overrun", "%s(dst,%zu,...) touched byte %zu (%s the stated size)", useN ? "qstrncpy" : "qstrcpy", size, i, i >= size ? "beyond" : "after the terminator but inside");
    g_checked++;
}
void chk_copy_overlap(Ctx &c, const std::string &src, size_t shift) {
    // overlapping source and destination inside one buffer (memmove semantics)
    size_t L = src.size();
    char *buf = new char[L + shift + 1]; struct D { char *p; ~D() { delete[] p; } } d{buf};
    memset(buf, GUARD, L + shift + 1);
    memcpy(buf + shift, src.c_str(), L + 1);
    qstrcpy(buf, L + 1, buf + shift);
    if (std::string(buf) != src) c.fail(FUNC, "string:copy-overlap", "qstrcpy with overlapping buffers (shift %zu) gave %s, expected %s", shift, hexs(buf, strlen(buf)).c_str(), hexs(src).c_str());
}
void chk_between(Ctx &c, const std::string &s, const std::string &st, const std::string &en) {
    HB b(s), a(st), e(en);
    char *r = qstrdup_between(b.p, a.p, e.p);
    size_t i = s.find(st);
    bool ok = false; std::string want;
    if (i != std::string::npos) { size_t j = s.find(en, i + st.size()); if (j != std::string::npos) { ok = true; want = s.substr(i + st.size(), j - i - st.size()); } }
    std::string got = r ? r : ""; bool gotok = r != nullptr; free(r);
    if (gotok != ok || got != want) c.fail(FUNC, "string:dup-between", "qstrdup_between(%s,%s,%s) = %s, expected %s", hexs(s).c_str(), hexs(st).c_str(), hexs(en).c_str(), gotok ? hexs(got).c_str() : "NULL", ok ? hexs(want).c_str() : "NULL");
    g_checked++;
}
void chk_tok(Ctx &c, const std::string &s, const std::string &delims) {
    // reference: split on the delimiter set, empty fields included; whether a trailing empty
    // field is reported is not fixed by the documentation and not asserted
    std::vector<std::string> fields; std::vector<char> stops; std::string cur;
    for (char ch : s) { if (delims.find(ch) != std::string::npos) { fields.push_back(cur); stops.push_back(ch); cur.clear(); } else cur.push_back(ch); }
    bool trailing_empty = cur.empty();
    fields.push_back(cur); stops.push_back('\0');
    HB b(s), d(delims);
    int off = 0; size_t i = 0; char stop = 'Z';
    char *t;
    while ((t = qstrtok(b.p, d.p, &stop, &off)) != nullptr) {
        if (i >= fields.size()) c.fail(FUNC, "string:tok-extra", "qstrtok(%s,%s) returned more than %zu fields", hexs(s).c_str(), hexs(delims).c_str(), fields.size());
        if (fields[i] != t) c.fail(FUNC, "string:tok-field", "qstrtok(%s,%s) field %zu = %s, expected %s", hexs(s).c_str(), hexs(delims).c_str(), i, hexs(t, strlen(t)).c_str(), hexs(fields[i]).c_str());
        if (stop != stops[i]) c.fail(FUNC, "string:tok-stop", "qstrtok(%s,%s) field %zu stop character 0x%02x, expected 0x%02x", hexs(s).c_str(), hexs(delims).c_str(), i, (unsigned char)stop, (unsigned char)stops[i]);
        i++;
        if (i > s.size() + 2) break;
        if (off < 0 || (size_t)off > s.size()) c.fail(FUNC, "string:tok-offset", "qstrtok moved the offset to %d in a %zu-byte string", off, s.size());
    }
    size_t need = trailing_empty ? fields.size() - 1 : fields.size();
    if (i < need) c.fail(FUNC, "string:tok-missing", "qstrtok(%s,%s) returned %zu fields, expected %zu (empty fields included)", hexs(s).c_str(), hexs(delims).c_str(), i, need);
    // qstrtokenizer: same fields as a list
    { HB b2(s); qlist_t *l = qstrtokenizer(b2.p, d.p); if (!l) c.fail(FUNC, "string:tokenizer-null", "qstrtokenizer returned NULL");
      struct G { qlist_t *l; ~G() { qlist_free(l); } } g{l};
      size_t n = qlist_size(l);
      if (n < need || n > fields.size()) c.fail(FUNC, "string:tokenizer-count", "qstrtokenizer(%s,%s) returned %zu fields, expected %zu", hexs(s).c_str(), hexs(delims).c_str(), n, need);
      for (size_t k = 0; k < n; k++) { size_t sz = 0; char *e = (char *)qlist_getat(l, (int)k, &sz, false); if (!e || sz != fields[k].size() + 1 || fields[k] != e) c.fail(FUNC, "string:tokenizer-field", "qstrtokenizer(%s,%s) field %zu = %s, expected %s", hexs(s).c_str(), hexs(delims).c_str(), k, e ? hexs(e, strlen(e)).c_str() : "NULL", hexs(fields[k]).c_str()); }
      if (b2.str() != s) c.fail(FUNC, "string:tokenizer-src", "qstrtokenizer modified its const source"); }
    g_checked++;
}
void chk_gets(Ctx &c, const std::string &s, size_t size) {
    HB src(s);
    char *buf = new char[size + 4]; memset(buf, GUARD, size + 4); struct D { char *p; ~D() { delete[] p; } } d{buf};
    char *off = src.p;
    std::string concat; std::vector<std::string> lines; size_t calls = 0;
    while (qstrgets(buf, size, &off) != nullptr) {
        size_t l = strnlen(buf, size + 4);
        if (l >= size) c.fail(MEM, "string:gets-overrun", "qstrgets(buf,%zu) wrote %zu characters without a terminator inside the buffer", size, l);
        for (size_t i = size; i < size + 4; i++) if ((unsigned char)buf[i] != GUARD) c.fail(MEM, "string:gets-overrun", "qstrgets(buf,%zu) wrote beyond the buffer", size);
        std::string line = buf;
        if (line.find_first_of("\r\n") != std::string::npos) c.fail(FUNC, "string:gets-crlf", "qstrgets stored a CR/LF: %s", hexs(line).c_str());
        concat += line; lines.push_back(line);
        if (off < src.p || off > src.p + s.size()) c.fail(MEM, "string:gets-offset", "qstrgets moved the offset outside the source string");
        if (++calls > s.size() + 2) c.fail(HANG, "string:gets-loop", "qstrgets does not reach the end of a %zu-byte string", s.size());
    }
    std::string want; for (char ch : s) if (ch != '\r' && ch != '\n') want.push_back(ch);
    if (concat != want) c.fail(FUNC, "string:gets-content", "lines read from %s concatenate to %s, expected the input without CR/LF", hexs(s).c_str(), hexs(concat).c_str());
    // exact lines when every raw line (CRs included) fits with room to spare
    std::vector<std::string> ref; std::string cur; size_t rawmax = 0, raw = 0; bool open = false;
    for (char ch : s) { if (ch == '\n') { ref.push_back(cur); cur.clear(); if (raw > rawmax) rawmax = raw; raw = 0; open = false; } else { raw++; open = true; if (ch != '\r') cur.push_back(ch); } }
    if (open) { ref.push_back(cur); if (raw > rawmax) rawmax = raw; }
    if (size >= rawmax + 2 && lines != ref) c.fail(FUNC, "string:gets-lines", "qstrgets(buf,%zu) split %s into %zu lines, expected %zu", size, hexs(s).c_str(), lines.size(), ref.size());
    g_checked++;
}
void chk_fmt(Ctx &c, const std::string &a, long n) {
    HB b(a);
    char *r = qstrdupf("%s|%ld|%s", b.p, n, b.p);
    std::string want = a + "|" + std::to_string(n) + "|" + a;
    if (!r || want != r) { free(r); c.fail(FUNC, "string:dupf", "qstrdupf produced the wrong string"); }
    free(r);
    std::string base = "x:";
    HB buf(base, base.size() + want.size() + 1);
    char *q = qstrcatf(buf.p, "%s|%ld|%s", b.p, n, b.p);
    if (q != buf.p || buf.str() != base + want) c.fail(FUNC, "string:catf", "qstrcatf produced the wrong string");
    g_checked++;
}

// ---- further routines of qstring.c: references taken from their documentation only where it is
// unambiguous; for the two validity tests the oracle is two-sided but leaves open what reasonable
// definitions disagree on
std::string ref_comma(long long v) {
    bool neg = v < 0; unsigned long long a = neg ? (unsigned long long)(-v) : (unsigned long long)v;
    std::string d = std::to_string(a), o;
    for (size_t i = 0; i < d.size(); i++) { o.push_back(d[i]); size_t left = d.size() - 1 - i; if (left && left % 3 == 0) o.push_back(','); }
    return (neg ? "-" : "") + o;
}
void chk_comma(Ctx &c, int v) {
    char *r = qstr_comma_number(v);
    if (!r) c.fail(FUNC, "string:comma-null", "qstr_comma_number(%d) returned NULL", v);
    std::string got = r; free(r);
    std::string want = ref_comma(v);
    if (got != want) c.fail(FUNC, "string:comma", "qstr_comma_number(%d) = \"%s\", expected \"%s\"", v, got.c_str(), want.c_str());
    g_checked++;
}
void chk_memdup(Ctx &c, const std::string &x) {
    uint8_t *src = new uint8_t[x.size() ? x.size() : 1]; struct D { uint8_t *p; ~D() { delete[] p; } } d{src};
    memcpy(src, x.data(), x.size());
    void *r = qmemdup(src, x.size());
    if (x.empty()) { if (r) { free(r); c.fail(FUNC, "string:memdup", "qmemdup(data, 0) returned a block, documented NULL"); } }
    else {
        if (!r) c.fail(FUNC, "string:memdup", "qmemdup of %zu bytes returned NULL", x.size());
        bool same = memcmp(r, x.data(), x.size()) == 0, aliased = r == (void *)src;
        free(r);
        if (!same || aliased) c.fail(FUNC, "string:memdup", "qmemdup of %zu bytes (%s) returned %s", x.size(), hexs(x, 16).c_str(), aliased ? "the source itself" : "different bytes");
    }
    if (qmemdup(nullptr, 4) != nullptr) c.fail(FUNC, "string:memdup", "qmemdup(NULL, 4) returned a block");
    g_checked++;
}
void chk_strtest(Ctx &c, const std::string &x) {
    static int (*const fns[])(int) = {isdigit, isalpha, isalnum, isupper, islower, isxdigit, isspace, ispunct};
    static const char *names[] = {"isdigit", "isalpha", "isalnum", "isupper", "islower", "isxdigit", "isspace", "ispunct"};
    HB b(x);
    for (size_t k = 0; k < sizeof fns / sizeof *fns; k++) {
        bool want = true; for (unsigned char ch : x) if (!fns[k](ch)) want = false;
        bool got = qstrtest(fns[k], b.p);
        if (got != want) c.fail(FUNC, "string:strtest", "qstrtest(%s, %s) = %d, expected %d", names[k], hexs(x).c_str(), (int)got, (int)want);
    }
    g_checked++;
}
// 1 valid, 0 invalid, -1 left open (an octet written with a leading zero)
int ref_ip4(const std::string &x) {
    std::vector<std::string> parts; std::string cur;
    for (char ch : x) { if (ch == '.') { parts.push_back(cur); cur.clear(); } else cur.push_back(ch); }
    parts.push_back(cur);
    if (parts.size() != 4) return 0;
    bool lead = false;
    for (auto &p : parts) {
        if (p.empty()) return 0;
        for (unsigned char ch : p) if (ch < '0' || ch > '9') return 0;
        size_t nz = p.find_first_not_of('0'); std::string sig = nz == std::string::npos ? "0" : p.substr(nz);
        if (sig.size() > 3 || atoi(sig.c_str()) > 255) return 0;
        if (p.size() > 1 && p[0] == '0') lead = true;
    }
    return lead ? -1 : 1;
}
void chk_ip4(Ctx &c, const std::string &x) {
    HB b(x);
    bool got = qstr_is_ip4addr(b.p);
    int want = ref_ip4(x);
    if (b.str() != x) c.fail(FUNC, "string:ip4-src", "qstr_is_ip4addr modified its const argument");
    if (want >= 0 && (int)got != want) c.fail(FUNC, "string:ip4", "qstr_is_ip4addr(%s) = %d, expected %d (four dot-separated decimal numbers 0..255)", hexs(x).c_str(), (int)got, want);
    g_checked++;
}
// necessary conditions every reading of "email-address formatted" shares, and a plain sufficient form
void chk_email(Ctx &c, const std::string &x) {
    HB b(x);
    bool got = qstr_is_email(b.p);
    size_t ats = 0, dots = 0; bool badch = false, plain = true;
    for (unsigned char ch : x) { if (ch == '@') ats++; else if (ch == '.') dots++; else if (!(isalnum(ch) || ch == '-' || ch == '_')) badch = true; }
    if (got && (ats != 1 || dots == 0 || badch || x[0] == '@')) c.fail(FUNC, "string:email", "qstr_is_email(%s) = true for a string %s", hexs(x).c_str(), ats != 1 ? "without exactly one '@'" : dots == 0 ? "without a dot" : badch ? "with a character outside [A-Za-z0-9._@-]" : "starting with '@'");
    // local@domain.tld with alphanumeric parts of length >= 2 and single dots
    size_t at = x.find('@');
    if (ats == 1 && !badch && at >= 2) {
        std::string dom = x.substr(at + 1), loc = x.substr(0, at);
        size_t dd = dom.find('.');
        plain = loc.find('.') == std::string::npos && dd != std::string::npos && dd >= 2 && dom.find('.', dd + 1) == std::string::npos && dom.size() - dd - 1 >= 2;
        if (plain && !got) c.fail(FUNC, "string:email", "qstr_is_email(%s) = false for a plain local@domain.tld address", hexs(x).c_str());
    }
    g_checked++;
}
void chk_unique(Ctx &c, const std::string &seed, bool null_seed) {
    HB b(seed);
    char *r1 = qstrunique(null_seed ? nullptr : b.p), *r2 = qstrunique(null_seed ? nullptr : b.p);
    std::string a = r1 ? r1 : "", d = r2 ? r2 : ""; free(r1); free(r2);
    for (const std::string *u : {&a, &d}) {
        bool ok = u->size() == 32; for (char ch : *u) if (!((ch >= '0' && ch <= '9') || (ch >= 'a' && ch <= 'f'))) ok = false;
        if (!ok) c.fail(FUNC, "string:unique-format", "qstrunique returned \"%s\", documented: 32 characters (lowercase hex of an MD5)", u->c_str());
    }
    if (a == d) c.fail(FUNC, "string:unique-repeat", "two consecutive qstrunique calls returned the same id %s", a.c_str());
    g_checked++;
}
// ISO-8859-1 -> UTF-8 has a two-line definition; mag is the caller's output/input size ratio
void chk_conv(Ctx &c, const std::string &x, float mag) {
    std::string want; for (unsigned char ch : x) { if (ch < 0x80) want.push_back((char)ch); else { want.push_back((char)(0xC0 | (ch >> 6))); want.push_back((char)(0x80 | (ch & 0x3F))); } }
    HB b(x);
    char *r = qstr_conv_encoding(b.p, "ISO-8859-1", "UTF-8", mag);
    size_t room = (size_t)((mag * (float)x.size()) + 1);
    bool fits = want.size() + 1 <= room;
    std::string got = r ? std::string(r) : ""; bool gotok = r != nullptr; free(r);
    if (fits && !gotok) c.fail(FUNC, "string:conv", "qstr_conv_encoding(%s, ISO-8859-1 -> UTF-8, mag %.1f) returned NULL although the result fits", hexs(x, 24).c_str(), (double)mag);
    if (gotok && got != want) c.fail(FUNC, "string:conv", "qstr_conv_encoding(%s, ISO-8859-1 -> UTF-8, mag %.1f) = %s, expected %s", hexs(x, 24).c_str(), (double)mag, hexs(got, 24).c_str(), hexs(want, 24).c_str());
    if (!fits && gotok) c.fail(FUNC, "string:conv", "qstr_conv_encoding returned a string although the output buffer (mag %.1f) cannot hold the result", (double)mag);
    g_checked++;
}

std::string gen_str(Src &s, const char *alpha, size_t alen, size_t maxlen) {
    size_t len = s.pick({5, 3, 1}) == 0 ? (size_t)s.range(0, 6) : (size_t)s.range(0, (long)maxlen);
    // rare edge class for every text argument: lengths at and next to the sizes an internal scratch buffer plausibly has
    if (maxlen >= 30 && s.chance(1, 16)) { static const size_t edge[] = {256, 512, 1024, 1024, 2048, 4096, 8192}; len = edge[s.range(0, 6)] + (size_t)s.range(0, 4) - 2; }
    std::string r;
    for (size_t i = 0; i < len; i++) r.push_back(alpha[s.range(0, (long)alen - 1)]);
    return r;
}
}  // namespace

static bool g_conc_only = false;
bool vf_configure(Ctx &c) { g_errno_repoison = 1;
    if (c.mode != "C19") return false;
    c.deciding = FUNC | MEM | CRASH | HANG; c.noteonly = LEAK;
    g_conc_only = getenv("VF_CONC_ONLY") != nullptr;
    return true;
}

// decodes one routine check from the choice source; the returned job performs it (on any thread)
Job gen_job(Src &s, Ctx &c, bool *nt, const char **tag) {
    static const char A_TRIM[] = " \t\r\nab\x80\f\v\x08\x0e\x1f!\xa0\x85",   /* the four blanks, text, and the bytes next to / easily mistaken for blanks (FF, VT, BS, SO, US, NBSP, NEL) */ A_TXT[] = "abAB,|: \"'Xx\n\r\t\x80z", A_REP[] = "abaXbaa";
    int tgt = (int)s.pick({3, 2, 4, 4, 2, 2, 4, 4, 1, 1, 1, 1, 1, 1, 1, 1});
    switch (tgt) {
        case 9: {
            static const int edges[] = {0, 1, -1, 9, 10, 99, 100, 999, 1000, -999, -1000, 999999, 1000000, -1000000, 2147483647, -2147483647, -2147483647 - 1, 1000000000, 999999999};
            int v = s.boolean() ? edges[s.range(0, (long)(sizeof edges / sizeof *edges) - 1)] + (int)(s.chance(1, 2) ? 0 : 0) : (int)s.range(-2147483647L - 1, 2147483647L);
            c.op("comma_number(%d)", v); *nt = v >= 1000 || v <= -1000; *tag = "comma_number"; return [v](Ctx &k) { chk_comma(k, v); }; }
        case 10: { std::string x = gen_str(s, "\0ab\xff\n", 5, 300); c.op("memdup(%zu bytes)", x.size()); *nt = !x.empty(); *tag = "memdup"; return [x](Ctx &k) { chk_memdup(k, x); }; }
        case 11: { std::string x = gen_str(s, "09afAFgZ _-\x80\xff.", 14, 40); c.op("strtest(%s)", hexs(x).c_str()); *nt = !x.empty(); *tag = "strtest"; return [x](Ctx &k) { chk_strtest(k, x); }; }
        case 12: {
            std::string x;
            if (s.boolean()) { int np = (int)s.pick({1, 1, 2, 12, 2}); for (int i = 0; i < np; i++) { if (i) x.push_back('.'); int kd = (int)s.pick({6, 2, 1, 1, 1}); x += kd == 0 ? std::to_string(s.range(0, 255)) : kd == 1 ? std::to_string(s.range(256, 1000)) : kd == 2 ? "" : kd == 3 ? "0" + std::to_string(s.range(0, 99)) : "1a"; } }
            else x = gen_str(s, "0125.a -", 8, 16);
            c.op("is_ip4addr(%s)", hexs(x).c_str()); *nt = ref_ip4(x) == 1; *tag = "is_ip4addr"; return [x](Ctx &k) { chk_ip4(k, x); }; }
        case 13: {
            std::string x;
            if (s.boolean()) { x = gen_str(s, "abz09", 5, 8) + "@" + gen_str(s, "abz09", 5, 8) + "." + gen_str(s, "abz", 3, 4); if (s.chance(1, 4) && !x.empty()) x[(size_t)s.range(0, (long)x.size() - 1)] = "@. !_-"[s.range(0, 5)]; }
            else x = gen_str(s, "ab@.-_ 9", 8, 20);
            c.op("is_email(%s)", hexs(x).c_str()); *nt = x.find('@') != std::string::npos; *tag = "is_email"; return [x](Ctx &k) { chk_email(k, x); }; }
        case 14: { bool ns = s.chance(1, 4); std::string x = gen_str(s, "seed-0", 6, 300); c.op("unique(seed of %zu bytes%s)", x.size(), ns ? ", NULL" : ""); *nt = !ns && x.size() > 100; *tag = "unique"; return [x, ns](Ctx &k) { chk_unique(k, x, ns); }; }
        case 15: { std::string x = gen_str(s, "ab \xe9\xff\x80z", 7, 200); static const float mags[] = {1.0f, 1.5f, 2.0f, 3.0f}; float m = mags[s.range(0, 3)]; c.op("conv_encoding(%s, latin1->utf8, mag %.1f)", hexs(x, 24).c_str(), (double)m); bool hi = false; for (unsigned char ch : x) if (ch >= 0x80) hi = true; *nt = hi; *tag = "conv_encoding"; return [x, m](Ctx &k) { chk_conv(k, x, m); }; }
        case 0: { std::string x = gen_str(s, A_TRIM, 15, 60); c.op("trim family on %s", hexs(x).c_str()); *nt = !x.empty() && (blank(x.front()) || blank(x.back())); *tag = "trim"; return [x](Ctx &k) { chk_trim(k, x); }; }
        case 1: { std::string x = gen_str(s, "\"'ab[]", 6, 30); char h = "\"'[a"[s.range(0, 3)], t = "\"']a"[s.range(0, 3)]; c.op("unchar(%s,%c,%c)", hexs(x).c_str(), h, t); *nt = x.size() >= 2 && x.front() == h && x.back() == t; *tag = "unchar"; return [x, h, t](Ctx &k) { chk_unchar(k, x, h, t); }; }
        case 2: {
            char method = s.boolean() ? 't' : 's';
            std::string src = gen_str(s, A_REP, 7, 80), tok = gen_str(s, A_REP, 7, 4), word = gen_str(s, "abXYZ", 5, 8);
            if (method == 's' && tok.empty()) tok = "a";            // string mode needs a non-empty search string
            if (s.chance(1, 20)) { static const char *bad[] = {"xn", "sx", "s", "snr", ""}; const char *m = bad[s.range(0, 4)]; c.op("replace(invalid mode \"%s\")", m); *nt = false; *tag = "replace_badmode"; return [src, m](Ctx &k) { chk_replace_badmode(k, src, m); }; }
            c.op("replace(%c,%s,%s,%s)", method, hexs(src).c_str(), hexs(tok).c_str(), hexs(word).c_str());
            *nt = ref_replace(method, src, tok, word) != src; *tag = method == 't' ? "replace_token" : "replace_string";
            return [src, tok, word, method](Ctx &k) { chk_replace(k, src, tok, word, method); }; }
        case 3: {
            std::string src = gen_str(s, A_TXT, 17, 100);
            bool useN = s.boolean();
            size_t size = (size_t)s.range(1, (long)src.size() + 2);
            size_t nbytes = (size_t)s.range(0, (long)src.size());
            c.op("%s(dst,%zu,%s,%zu)", useN ? "qstrncpy" : "qstrcpy", size, hexs(src).c_str(), nbytes);
            size_t shift = (s.chance(1, 4) && !src.empty()) ? (size_t)s.range(1, (long)src.size()) : 0;
            *nt = (useN ? nbytes : src.size()) >= size; *tag = "bounded_copy";
            return [src, size, nbytes, useN, shift](Ctx &k) { chk_copy(k, src, size, nbytes, useN); if (shift) chk_copy_overlap(k, src, shift); }; }
        case 4: { std::string x = gen_str(s, "ab<>[]", 6, 40), st = gen_str(s, "<[a", 3, 2), en = gen_str(s, ">]b", 3, 2); c.op("dup_between(%s,%s,%s)", hexs(x).c_str(), hexs(st).c_str(), hexs(en).c_str()); *nt = x.find(st) != std::string::npos; *tag = "dup_between"; return [x, st, en](Ctx &k) { chk_between(k, x, st, en); }; }
        case 5: {
            std::string x;
            if (s.boolean()) x = gen_str(s, A_TXT, 17, 60);
            else {   // every byte value, weighted towards the edges of the letter ranges and the bytes whose 7-bit image lies near them
                static const unsigned char edge[] = {'@', 'A', 'Z', '[', '`', 'a', 'z', '{', 0x7f, 0x80, 0xc0, 0xc1, 0xda, 0xdb, 0xe0, 0xe1, 0xfa, 0xfb, 0xff, 0x01};
                size_t len = (size_t)s.range(0, 40);
                for (size_t i = 0; i < len; i++) { int k = (int)s.pick({5, 3, 2}); unsigned char ch = k == 0 ? edge[s.range(0, (long)sizeof(edge) - 1)] : k == 1 ? (unsigned char)s.range(1, 255) : (unsigned char)("azAZ"[s.range(0, 3)]); x.push_back((char)ch); }
            }
            c.op("rev/upper/lower on %s", hexs(x).c_str()); *nt = x.size() >= 2; *tag = "rev_case"; return [x](Ctx &k) { chk_revcase(k, x); }; }
        case 6: { std::string x = gen_str(s, "ab,|: ", 6, 60), d = gen_str(s, ",|:", 3, 3); c.op("tok(%s, delimiters %s)", hexs(x).c_str(), hexs(d).c_str()); *nt = x.find_first_of(d) != std::string::npos && !d.empty(); *tag = "tokenizer"; return [x, d](Ctx &k) { chk_tok(k, x, d); }; }
        case 7: { std::string x = gen_str(s, "ab\n\r ", 5, 120); size_t size = (size_t)s.range(2, 40); c.op("gets(%s, size %zu)", hexs(x).c_str(), size); *nt = x.find_first_of("\r\n") != std::string::npos; *tag = "gets"; return [x, size](Ctx &k) { chk_gets(k, x, size); }; }
        default: {
            std::string x = gen_str(s, "ab% ", 4, 40); long n = s.range(-100000, 100000);
            // outputs around the sizes a formatting buffer plausibly has (the result is a|n|a: two copies of x)
            if (s.chance(1, 6)) { static const size_t edge[] = {256, 512, 1024, 1024, 2048, 4096, 8192}; size_t total = edge[s.range(0, 6)] + (size_t)s.range(0, 6) - 3; size_t fixed = 2 + std::to_string(n).size(); size_t each = total > fixed ? (total - fixed) / 2 : 1; x.assign(each, 'a'); for (size_t i = 0; i < each; i += 7) x[i] = "ab% "[(i / 7) % 4]; }
            c.op("dupf/catf(%s,%ld) [%zu-byte argument]", hexs(x, 24).c_str(), n, x.size()); *nt = !x.empty(); *tag = x.size() > 100 ? "format_long" : "format"; return [x, n](Ctx &k) { chk_fmt(k, x, n); }; }
    }
}

void run_case(Src &s, Ctx &c) {
    bool nt = false; const char *tag = "";
    if (g_conc_only || s.chance(1, 16)) {
        // concurrent callers: 2..4 threads, each with 2..5 routine checks on private strings, repeated
        size_t nth = (size_t)s.range(2, 4); int rounds = (int)s.range(20, 200);
        std::vector<std::vector<Job>> jobs(nth);
        for (size_t i = 0; i < nth; i++) { c.op("thread %zu:", i); int nj = (int)s.range(2, 5); for (int j = 0; j < nj; j++) { jobs[i].push_back(gen_job(s, c, &nt, &tag)); c.tag((std::string("concurrent_") + tag).c_str()); } }
        c.op("the %zu threads run their checks %d times concurrently", nth, rounds);
        run_concurrent(c, jobs, rounds, "string");
        c.check_san("string routines called from several threads");
        c.nontrivial = true; c.tag("concurrent_callers");
        return;
    }
    Job j = gen_job(s, c, &nt, &tag);
    j(c);
    c.nontrivial = nt; c.tag(tag);
    c.check_san("string routine");
}

// bounded-exhaustive: all strings up to length L over small alphabets
static void all_strings(const char *alpha, size_t alen, int L, const std::function<void(const std::string &)> &f) {
    std::string x;
    std::function<void(int)> rec = [&](int d) { f(x); if (d == L) return; for (size_t i = 0; i < alen; i++) { x.push_back(alpha[i]); rec(d + 1); x.pop_back(); } };
    rec(0);
}
bool vf_enumerate(Ctx &c, EnumStats &st) {
    int shard = 0, nshards = 1;
    if (const char *e = getenv("VF_ENUM_SHARD")) sscanf(e, "%d/%d", &shard, &nshards);
    int L = c.tier ? 6 : 5;
    uint64_t idx = 0;
    auto mine = [&]() { return (int)(idx++ % (uint64_t)nshards) == shard; };
    all_strings(" \t\r\na\x80\f\v", 8, L, [&](const std::string &x) { if (!mine()) return; c.trace = "enumerated: trim " + hexs(x); chk_trim(c, x); chk_revcase(c, x); st.evaluations++; if (!x.empty()) st.nontrivial++; });
    all_strings("\"'a", 3, L + 1, [&](const std::string &x) { if (!mine()) return; c.trace = "enumerated: unchar " + hexs(x); chk_unchar(c, x, '"', '"'); chk_unchar(c, x, '\'', '"'); st.evaluations++; if (x.size() >= 2) st.nontrivial++; });
    static const char *toks[] = {"a", "ab", "aa", "b", "aba"}; static const char *words[] = {"", "a", "XY", "aba", "b"};
    all_strings("abX", 3, L, [&](const std::string &x) { if (!mine()) return; for (auto t : toks) for (auto w : words) { c.trace = "enumerated: replace " + hexs(x) + " " + t + " -> " + w; chk_replace(c, x, t, w, 's'); chk_replace(c, x, t, w, 't'); st.evaluations++; st.nontrivial++; } });
    all_strings("ab,| ", 5, L, [&](const std::string &x) { if (!mine()) return; c.trace = "enumerated: tok " + hexs(x); chk_tok(c, x, ",|"); chk_tok(c, x, ","); st.evaluations++; if (x.find_first_of(",|") != std::string::npos) st.nontrivial++; });
    all_strings("a\n\r", 3, L + 1, [&](const std::string &x) { if (!mine()) return; for (size_t size = 2; size <= 5; size++) { c.trace = "enumerated: gets " + hexs(x) + " size " + std::to_string(size); chk_gets(c, x, size); } chk_gets(c, x, 64); st.evaluations++; if (x.find_first_of("\r\n") != std::string::npos) st.nontrivial++; });
    all_strings("abc", 3, 4, [&](const std::string &x) { if (!mine()) return; for (size_t size = 1; size <= x.size() + 2; size++) for (size_t nb = 0; nb <= x.size(); nb++) { c.trace = "enumerated: copy " + hexs(x); chk_copy(c, x, size, nb, true); chk_copy(c, x, size, nb, false); } st.evaluations++; st.nontrivial++; });
    all_strings("0125.a", 6, L + 2, [&](const std::string &x) { if (!mine()) return; c.trace = "enumerated: is_ip4addr " + hexs(x); chk_ip4(c, x); st.evaluations++; if (x.find('.') != std::string::npos) st.nontrivial++; });
    all_strings("a@.-!", 5, L + 2, [&](const std::string &x) { if (!mine()) return; c.trace = "enumerated: is_email " + hexs(x); chk_email(c, x); st.evaluations++; if (x.find('@') != std::string::npos) st.nontrivial++; });
    // every integer in a band around zero and around every power of ten / of two, both signs
    { std::vector<long long> centres = {0}; for (long long p = 10; p <= 2147483647LL; p *= 10) centres.push_back(p); for (int b = 10; b <= 31; b++) centres.push_back(1LL << b);
      long long band = c.tier ? 20000 : 2000;
      for (long long ce : centres) for (int sg = -1; sg <= 1; sg += 2) for (long long dlt = -band; dlt <= band; dlt++) {
          long long v = sg * ce + dlt; if (v < -2147483648LL || v > 2147483647LL) continue;
          if (!mine()) continue;
          c.trace = "enumerated: comma_number " + std::to_string(v); chk_comma(c, (int)v); st.evaluations++; if (v >= 1000 || v <= -1000) st.nontrivial++; } }
    // case conversion and reversal on every ordered pair of non-NUL bytes, placed at each of the 8 offsets of a
    // word-sized block inside a 24-byte string of letters (a word-at-a-time implementation carries between neighbours)
    for (int a = 1; a < 256; a++) { if (!mine()) continue; for (int b = 1; b < 256; b++) { int off = (a * 7 + b) & 7; std::string x = "qQzZaAmMzZqQaAmMzZqQaAmM"; x[(size_t)(8 + off)] = (char)a; x[(size_t)(8 + off + 1)] = (char)b; c.trace = "enumerated: upper/lower/rev with bytes " + hexs(x.substr(8 + (size_t)off, 2)) + " at offset " + std::to_string(8 + off); chk_revcase(c, x); } st.evaluations++; st.nontrivial++; }
    // replace sizes its output buffer from a worst-case bound (source length x replacement length):
    // inputs of a few tens of KiB whose bound passes 2^31 / 2^32 while the real result stays small
    if (shard == 0) {
        static const size_t dims[][2] = {{65536, 65537}, {46341, 46341}, {65535, 65537}, {70000, 70000}, {100000, 43000}};
        for (auto &dm : dims) for (int method = 0; method < 2; method++) {
            std::string src(dm[0], 'x'); src[dm[0] / 2] = 'a'; src[dm[0] - 1] = 'a';
            std::string word(dm[1], 'w'); word[0] = '<'; word[dm[1] - 1] = '>';
            c.trace = strf("enumerated: replace(%s) of a %zu-byte source with two matches by a %zu-byte word (bound %zu x %zu)", method ? "token" : "string", dm[0], dm[1], dm[0], dm[1]);
            chk_replace(c, src, "a", word, method ? 't' : 's');
            st.evaluations++; st.nontrivial++;
        }
    }
    if (g_san_reports) c.fail(MEM, g_san_last, "sanitizer report(s) during the enumeration of short strings: %s", g_san_last);
    st.states = st.evaluations;
    st.extra["max_length"] = (uint64_t)L;
    st.extra["routine_checks"] = g_checked.load();
    st.samples.push_back("all strings of length <= L over {' ',\\t,\\r,\\n,a,0x80,\\f,\\v} through trim/trim_head/trim_tail/rev/upper/lower");
    st.samples.push_back("all strings over {a,b,X} x search {a,ab,aa,b,aba} x replacement {'',a,XY,aba,b} x modes tn/tr/sn/sr");
    st.samples.push_back("all strings over {a,b,',','|',' '} through qstrtok/qstrtokenizer; over {a,\\n,\\r} through qstrgets with sizes 2..5 and 64");
    st.samples.push_back("all strings of length <= L+2 over {0,1,2,5,'.',a} through qstr_is_ip4addr and over {a,@,'.',-,!} through qstr_is_email; every integer within a band of 0, +-10^k and +-2^k through qstr_comma_number");
    return true;
}
