// h_robust.cpp - decoders and parsers on arbitrary input.  Mode C17: memory safety (ASan/UBSan
// verdict), termination (expansion-round budget + CPU watchdog), "result or error".
// Targets: 0 qurl_decode 1 qbase64_decode 2 qhex_decode 3 qparse_queries 4 qconfig_parse_str
//          5 qconfig_parse_file (+ generated include files) 6 qaconf->parse.
// The target is fixed by VF_TARGET (libFuzzer campaigns: one corpus per format) or drawn from
// the choice source.  Input text is either the raw rest of the bytes or a token sequence drawn
// from a per-format dictionary.
#include "common/vf.hpp"
#include <cerrno>
#include <unistd.h>
#include <sys/stat.h>
extern "C" {
#include "qlibc.h"
#include "qlibcext.h"
}
using namespace vf;
const char *vf_harness_name = "robust";

namespace {
int g_fixed_target = -1;
std::string g_dir;

struct CStr { char *p; size_t n; CStr(const std::string &s) { n = strlen(s.c_str()); p = new char[n + 1]; memcpy(p, s.c_str(), n + 1); } ~CStr() { delete[] p; } };

const std::vector<std::string> &dict(int tgt) {
    static const std::vector<std::string> d[7] = {
        {"%", "+", "a", "F", "0", "z", "%4", "%zz", "%00", "%%", "%41", "%f", "%G1"},
        {"A", "/", "=", "+", "\x80", " ", "QUJD", "==", "Zg", "\n", "-"},
        {"0", "9", "a", "F", "g", "00", "fF", " ", "\xff"},
        {"a", "=", "&", "%", "+", "%3d", "&&", ";", " ", "b=1", "%26", "=="},
        {"$", "{", "}", "=", "[", "]", "#", "!", "%", "\n", "a", "b", " ", "${a}", "${b}", "${c}", "${", "a=", "b=", "c=", "[s]", "[]", "${%HOME}", "${%}", "${!x}", "${!}", "${s.a}", ":", "\r", "${${a}}", "x"},
        {"$", "{", "}", "=", "[", "]", "#", "\n", "a", "b", " ", "${a}", "${b}", "a=", "b=", "[s]", "@INCLUDE ", "@INCLUDE inc1.conf", "@INCLUDE inc2.conf", "@INCLUDE missing.conf", "@INCLUDE", "\n@INCLUDE inc1.conf\n", "${x}", "x"},
        {"<", ">", "/", "\"", "'", "\\", " ", "\n", "A", "#", "Opt", "Int", "Flt", "Bool", "All", "Two", "Err", "Sec", "Sub", "InSec", "</Sec>", "<Sec x>", "<Sub>", "</Sub>", "1", "true", "off", "-1.5", "\t", "x", "\\\"", "Unknown", "opt", "sec"},
    };
    return d[tgt];
}
std::string gen_text(Src &s, int tgt) {
    if (s.boolean()) return s.rest();                       // raw bytes (coverage-guided fuzzing works on these)
    const auto &d = dict(tgt);
    std::string t;
    if (tgt == 6 && g_fixed_target < 0 && s.chance(1, 60)) {     // (not under libFuzzer, whose own crash handler cannot run on an exhausted stack)
        // sections nested far deeper than any real configuration (the parser recurses per section)
        size_t depth = (size_t)s.pick({1, 1, 1}) == 0 ? (size_t)s.range(200, 400) : (size_t)s.range(2500, 6000);
        bool close = s.boolean();
        for (size_t i = 0; i < depth; i++) t += "<Sec x>\n";
        if (close) for (size_t i = 0; i < depth; i++) t += "</Sec>\n";
        return t;
    }
    if (tgt == 6 && s.chance(1, 4)) {
        // nearly valid document: whole valid lines (so that the parser gets deep: open and nested
        // sections, close tags), cut off anywhere and with at most one damaged byte
        static const char *lines[] = {"Opt x", "Int 5", "Flt -1.5", "Bool on", "All 1 2 3", "Two yes 2.5", "<Sec x>", "</Sec>", "<Sub>", "</Sub>", "InSec y", "# c", "", "  ", "Opt \"a b\"", "<Sec 'q'>", "Err"};
        size_t nl = (size_t)s.pick({3, 2, 1}) == 0 ? (size_t)s.range(1, 3) : (size_t)s.range(1, 14);
        for (size_t i = 0; i < nl; i++) { t += lines[s.range(0, (long)(sizeof lines / sizeof *lines) - 1)]; if (i + 1 < nl || s.boolean()) t += "\n"; }
        if (s.chance(1, 3) && !t.empty()) t.resize((size_t)s.range(0, (long)t.size()));
        if (s.chance(1, 4) && !t.empty()) t[(size_t)s.range(0, (long)t.size() - 1)] = (char)s.range(1, 255);
        return t;
    }
    size_t n = s.chance(1, 4) ? (size_t)s.range(0, 4) : (size_t)s.range(0, 60);
    for (size_t i = 0; i < n && !s.exhausted(); i++) {
        if (s.chance(1, 8)) t.push_back((char)s.range(1, 255));
        else if (tgt == 5 && s.chance(1, 25)) {
            // an include directive line padded to about the size of the path buffer
            t += "\n@INCLUDE inc1.conf"; t.append((size_t)s.range(4060, 4100), ' '); t += "\n";
        } else if (tgt == 6 && s.chance(1, 25)) {
            // a directive line of about the parser's line-buffer size
            t += "\nOpt "; t.append((size_t)s.range(4070, 4110), s.boolean() ? 'a' : '"'); t += "\n";
        } else if (s.chance(1, 40)) {
            // over-long lines: padding whose length sits around the parsers' line / path buffer sizes
            static const size_t edge[] = {1024, 4096, 4096, 4096, 8192};
            size_t len = edge[s.range(0, 4)] - (size_t)s.range(0, 24) + 4;
            t.append(len, s.boolean() ? ' ' : "a/."[s.range(0, 2)]);
        } else t += d[s.range(0, (long)d.size() - 1)];
    }
    return t;
}

bool malformed(int tgt, const std::string &t) {
    switch (tgt) {
        case 0: for (size_t i = 0; i < t.size(); i++) if (t[i] == '%' && (i + 2 >= t.size() || !isxdigit((unsigned char)t[i + 1]) || !isxdigit((unsigned char)t[i + 2]))) return true; return false;
        case 1: { size_t n = 0; for (unsigned char ch : t) if (isalnum(ch) || ch == '+' || ch == '/') n++; else if (ch != '=') return true; return n % 4 == 1 || t.find('=') < t.size() - 2; }
        case 2: if (t.size() % 2) return true; for (unsigned char ch : t) if (!isxdigit(ch)) return true; return false;
        case 3: return t.find("&&") != std::string::npos || t.find('%') != std::string::npos || t.find('=') == std::string::npos;
        case 4: case 5: { int depth = 0; for (size_t i = 0; i < t.size(); i++) { if (t[i] == '{') depth++; else if (t[i] == '}') depth--; } return depth != 0 || t.find("${") != std::string::npos; }
        default: { int q1 = 0, q2 = 0, lt = 0; for (char ch : t) { if (ch == '\'') q1++; if (ch == '"') q2++; if (ch == '<') lt++; if (ch == '>') lt--; } return (q1 & 1) || (q2 & 1) || lt != 0 || (!t.empty() && t.back() == '\\') || t.find("\\\n") != std::string::npos; }
    }
}

void write_file(const std::string &path, const std::string &content) {
    FILE *f = fopen(path.c_str(), "wb");
    if (!f) throw CaseStop{"cannot write temp file"};
    if (!content.empty()) fwrite(content.data(), 1, content.size(), f);
    fclose(f);
}

// ---- Apache-style parser fixture
long g_cb_calls = 0;
char *cb_touch(qaconf_cbdata_t *d, void *ud) {
    g_cb_calls++;
    volatile size_t sum = 0;
    for (int i = 0; i < d->argc; i++) sum += strlen(d->argv[i]);
    for (qaconf_cbdata_t *p = d->parent; p; p = p->parent) { sum += (size_t)p->argc; if (p->argc > 0) sum += strlen(p->argv[0]); }
    (void)ud; (void)sum;
    return nullptr;
}
char *cb_err(qaconf_cbdata_t *d, void *ud) { cb_touch(d, ud); return strdup("callback says no"); }

void run_target(int tgt, const std::string &text, unsigned cfg, Src &s, Ctx &c) {
    dirty_stack();
    switch (tgt) {
        case 0: case 1: case 2: {
            CStr b(text);
            size_t inlen = b.n;
            size_t n = tgt == 0 ? qurl_decode(b.p) : tgt == 1 ? qbase64_decode(b.p) : qhex_decode(b.p);
            c.check_san(tgt == 0 ? "qurl_decode" : tgt == 1 ? "qbase64_decode" : "qhex_decode");
            if (n > inlen) c.fail(MEM, "robust:decoder-grows", "in-place decoder returned %zu bytes for a %zu-byte input %s", n, inlen, hexs(text, 24).c_str());
            if (b.p[n] != '\0') c.fail(FUNC, "robust:decoder-unterminated", "in-place decoder left no NUL at the returned length %zu", n);
            break;
        }
        case 3: {
            CStr b(text);
            int cnt = -5;
            static const char seps[4] = {'&', ';', '\0', ' '};      // '\0' = "no separator": the whole string is one pair
            char eq = (cfg & 64) ? '\0' : "=:"[cfg & 1], sep = seps[(cfg >> 1) & 3];
            qlisttbl_t *t = qparse_queries(nullptr, b.p, eq, sep, &cnt);
            c.check_san("qparse_queries");
            if (!t) c.fail(FUNC, "robust:query-null", "qparse_queries returned NULL without an allocation failure");
            size_t n = qlisttbl_size(t);
            qlisttbl_free(t);
            if (cnt < 0 || (size_t)cnt != n) c.fail(FUNC, "robust:query-count", "qparse_queries reports %d entries, the table holds %zu", cnt, n);
            break;
        }
        case 4: case 5: {
            char sep = "=:"[cfg & 1];
            vf_replace_budget = 2000; vf_replace_calls = 0; vf_replace_bytes = 0; vf_replace_exceeded = 0;
            qlisttbl_t *t;
            if (tgt == 4) { CStr b(text); t = qconfig_parse_str(nullptr, b.p, sep); }
            else {
                std::string inc1 = s.chance(1, 2) ? "i1=one\n[incsec]\nk=${i1}\n" : gen_text(s, 4);
                std::string inc2 = gen_text(s, 4);
                if (text.find("vf-main") != std::string::npos || inc1.find("@INCLUDE") != std::string::npos || inc2.find("@INCLUDE") != std::string::npos) { vf_replace_budget = 0; c.tag("skipped_possible_include_cycle"); return; }
                for (size_t i = text.find("@INCLUDE"); i != std::string::npos; i = text.find("@INCLUDE", i + 1)) {
                    size_t j = i + 8; while (j < text.size() && (text[j] == ' ' || text[j] == '\t')) j++;
                    if (j < text.size() && (text[j] == '/' || text[j] == '\\' || text.compare(j, 2, "..") == 0)) { vf_replace_budget = 0; c.tag("skipped_include_outside_sandbox"); return; }
                }
                write_file(g_dir + "/inc1.conf", inc1); write_file(g_dir + "/inc2.conf", inc2);
                write_file(g_dir + "/vf-main.conf", text);
                t = qconfig_parse_file(nullptr, (g_dir + "/vf-main.conf").c_str(), sep);
            }
            bool over = vf_replace_exceeded != 0;
            long rounds = vf_replace_calls;
            vf_replace_budget = 0;
            c.check_san(tgt == 4 ? "qconfig_parse_str" : "qconfig_parse_file");
            if (t) qlisttbl_free(t);
            if (over) c.fail(HANG, "robust:qconfig:expansion-budget", "INI ${} expansion did not settle within 2000 rounds / 8 MiB (%ld rounds): it does not terminate or grows without bound; input %s", rounds, hexs(text, 60).c_str());
            break;
        }
        default: {
            static qaconf_option_t opts[] = {
                {(char *)"Opt", QAC_TAKE_STR, cb_touch, 0, QAC_SECTION_ALL},
                {(char *)"Int", QAC_TAKE_INT, cb_touch, 0, QAC_SECTION_ALL},
                {(char *)"Flt", QAC_TAKE_FLOAT, cb_touch, 0, QAC_SECTION_ALL},
                {(char *)"Bool", QAC_TAKE_BOOL, cb_touch, 0, QAC_SECTION_ALL},
                {(char *)"All", QAC_TAKEALL | QAC_AA_INT, cb_touch, 0, QAC_SECTION_ALL},
                {(char *)"Two", QAC_TAKE2 | QAC_A1_BOOL | QAC_A2_FLOAT, nullptr, 0, QAC_SECTION_ALL},
                {(char *)"Err", QAC_TAKE0, cb_err, 0, QAC_SECTION_ALL},
                {(char *)"Sec", QAC_TAKE1, cb_touch, 2, QAC_SECTION_ALL},
                {(char *)"Sub", QAC_TAKE0, cb_touch, 4, 2},
                {(char *)"InSec", QAC_TAKE1, cb_touch, 0, 2 | 4},
                QAC_OPTION_END};
            int flags = (int)(cfg & 3);
            bool defh = (cfg & 4) != 0;
            write_file(g_dir + "/vf-apache.conf", text);
            qaconf_t *q = qaconf();
            if (!q) c.fail(FUNC, "robust:qaconf-ctor", "qaconf() returned NULL");
            q->addoptions(q, opts);
            if (defh) q->setdefhandler(q, cb_touch);
            std::string path = g_dir + "/vf-apache.conf";
            dirty_stack();
            // nesting depth of the document (open minus close tags, roughly): the parser recurses once per level
            size_t depth = 0, maxdepth = 0;
            for (size_t i = 0; i < text.size(); i++) if (text[i] == '<' && (i == 0 || text[i - 1] == '\n' || text[i - 1] == ' ' || text[i - 1] == '\t')) { if (i + 1 < text.size() && text[i + 1] == '/') { if (depth) depth--; } else { depth++; if (depth > maxdepth) maxdepth = depth; } }
            int n = 0;
            if (maxdepth > 1000) {
                int sg = guarded([&] { n = q->parse(q, path.c_str(), (uint8_t)flags); }, 20.0);
                if (sg) c.fail(CRASH, "robust:qaconf:nesting-depth", "qaconf parse of a document with sections nested %zu deep died with signal %d: the parser recurses once per nesting level with a line buffer on the stack, and the stack is exhausted", maxdepth, sg);
            } else n = q->parse(q, path.c_str(), (uint8_t)flags);
            const char *em = q->errmsg(q);
            bool hasmsg = em != nullptr && em[0] != '\0';
            q->free(q);
            c.check_san("qaconf parse");
            if (n < -1) c.fail(FUNC, "robust:qaconf-result", "parse returned %d", n);
            if (n == -1 && !hasmsg) c.fail(FUNC, "robust:qaconf-noerrmsg", "parse returned -1 without an error message");
        }
    }
}
}  // namespace

bool vf_configure(Ctx &c) { g_errno_repoison = 1;
    if (c.mode != "C17") return false;
    c.deciding = MEM | HANG | CRASH | FUNC; c.noteonly = LEAK;
    if (const char *t = getenv("VF_TARGET")) g_fixed_target = atoi(t);
    const char *td = getenv("TMPDIR");
    g_dir = std::string(td ? td : "/dev/shm") + "/vf-robust-" + std::to_string(getpid());
    mkdir(g_dir.c_str(), 0700);
    atexit([] { for (const char *f : {"/inc1.conf", "/inc2.conf", "/vf-main.conf", "/vf-apache.conf"}) unlink((g_dir + f).c_str()); rmdir(g_dir.c_str()); });
    setenv("HOME", "/nonexistent-home", 1);
    return true;
}

static const char *tname(int t) { static const char *n[] = {"qurl_decode", "qbase64_decode", "qhex_decode", "qparse_queries", "qconfig_parse_str", "qconfig_parse_file", "qaconf_parse"}; return n[t]; }

void run_case(Src &s, Ctx &c) {
    if (const char *rt = getenv("VF_RAW_TARGET")) {
        // the file IS the input text of that target (used for hand-written / recorded inputs, e.g. findings/)
        int tgt = atoi(rt); std::string text = s.rest(); text = text.c_str();
        c.op("%s(cfg=0, %s) [raw input]", tname(tgt), hexs(text, 200).c_str());
        run_target(tgt, text, 0, s, c); c.tag(tname(tgt)); c.nontrivial = malformed(tgt, text); return;
    }
    int tgt = g_fixed_target >= 0 ? g_fixed_target : (int)s.pick({2, 1, 2, 2, 4, 2, 5});
    unsigned cfg = s.u8();            // separators / parser flags / default handler
    std::string text = gen_text(s, tgt);
    text = text.c_str();                                   // inputs are NUL-terminated strings
    c.op("%s(cfg=%u, %s)", tname(tgt), cfg & 7, hexs(text, 200).c_str());
    vf_ledger_on = 0;
    run_target(tgt, text, cfg, s, c);
    c.tag(tname(tgt));
    c.nontrivial = malformed(tgt, text);
}

// bounded-exhaustive: all strings up to length L over the significant bytes of each format
bool vf_enumerate(Ctx &c, EnumStats &st) {
    int shard = 0, nshards = 1;
    if (const char *e = getenv("VF_ENUM_SHARD")) sscanf(e, "%d/%d", &shard, &nshards);
    struct A { int tgt; const char *alpha; int L; } as[] = {
        {0, "%+aF0z", c.tier ? 7 : 6}, {2, "09aFg", c.tier ? 7 : 6}, {1, "A/=+\x80 ", c.tier ? 7 : 6},
        {3, "a=&%+", c.tier ? 7 : 6}, {4, "${}=a\n[]", c.tier ? 7 : 6}, {4, "${}ab=\n!%#", c.tier ? 6 : 5}, {6, "<>/\"'\\ \nA#", c.tier ? 6 : 5}};
    uint64_t idx = 0;
    uint8_t zero[8] = {0};
    for (auto &a : as) {
        size_t alen = strlen(a.alpha);
        std::string x;
        std::function<void(int)> rec = [&](int d) {
            if ((int)(idx++ % (uint64_t)nshards) == shard) {
                c.trace = std::string("enumerated: ") + tname(a.tgt) + "(" + hexs(x, 40) + ")";
                Src s(zero, sizeof zero);
                try { run_target(a.tgt, x, (unsigned)(idx & 7), s, c); }
                catch (CaseFail &f) { if (!is_excluded(f.sig)) throw; count_excluded(f.sig); }
                st.evaluations++; if (malformed(a.tgt, x)) st.nontrivial++;
                if (st.samples.size() < 6 && idx % 50021 == 7) st.samples.push_back(c.trace);
            }
            if (d == a.L) return;
            for (size_t i = 0; i < alen; i++) { x.push_back(a.alpha[i]); rec(d + 1); x.pop_back(); }
        };
        rec(0);
    }
    // references of enormous length (the name between ${ and } is copied to scratch memory): stack use must
    // not grow with the input
    if (shard == 0) {
        for (size_t mib : {(size_t)1, (size_t)12}) {
            std::string x = "a=1\nb=${"; x.append(mib << 20, 'n'); x += "}\nc=${a}\n";
            c.trace = strf("enumerated: qconfig_parse_str with an undefined ${} reference of %zu MiB", mib);
            Src s(zero, sizeof zero);
            run_target(4, x, 0, s, c);
            st.evaluations++; st.nontrivial++;
        }
    }
    st.states = st.evaluations;
    st.extra["max_length"] = (uint64_t)(c.tier ? 7 : 6);
    return true;
}
