// h_hasharr.cpp - qhasharr (static hash table in user memory) harness.
//   C06 exact bounded map + exact space accounting      C07 image self-contained / relocatable /
//   well-formed      C11, C12 shares.
#include "common/cont.hpp"
#include <cerrno>
extern "C" {
#include "qlibc.h"
}
#include "common/via_members.hpp"   // after the prototypes: container calls go through the member pointers in half of the cases
using namespace vf;
const char *vf_harness_name = "hasharr";

namespace {
const size_t CANARY = 256;
struct Region {
    uint8_t *base = nullptr; size_t off = 0, size = 0, total = 0; bool guarded = false;
    void make(size_t sz, size_t offset, bool guard) {
        size = sz; guarded = guard; off = guard ? CANARY + offset : 0;
        total = guard ? off + sz + CANARY + 16 : sz;
        base = new uint8_t[total];
        memset(base, 0xC7, total);
    }
    uint8_t *mem() { return base + off; }
    bool canaries_ok(size_t *where) {
        if (!guarded) return true;
        for (size_t i = 0; i < off; i++) if (base[i] != 0xC7) { *where = i; return false; }
        for (size_t i = off + size; i < total; i++) if (base[i] != 0xC7) { *where = i; return false; }
        return true;
    }
    void drop() { delete[] base; base = nullptr; }
    ~Region() { delete[] base; }
};

size_t slots_for(size_t d) { return 1 + (d > 32 ? (d - 32 + 65) / 66 : 0); }

struct Run : ContBase {
    Region reg, twinreg;
    qhasharr_t *t = nullptr, *twin = nullptr;
    qhasharr_t *alt = nullptr;     // long-lived second handle on the same memory; "swap" makes it the one the history continues through
    int handle_swaps = 0;
    std::map<std::string, std::string> m;          // key bytes as the library sees them -> value
    std::vector<std::string> universe;
    int cap = 0;
    bool do_twin = false;
    FILE *devnull = nullptr;
    int nt_space = 0, nt_image = 0, relocs = 0, handle_switches = 0, removed_any = 0;

    Run(Src &s_, Ctx &c_, bool scr, bool ret) : ContBase(s_, c_, scr, ret, "hasharr") {}
    ~Run() { if (t) qhasharr_free(t); if (alt) qhasharr_free(alt); if (twin) qhasharr_free(twin); if (devnull) fclose(devnull); }

    qhasharr_slot_t *slots(qhasharr_t *h) { return (qhasharr_slot_t *)((char *)h->data + sizeof(qhasharr_data_t)); }
    uint32_t home(const std::string &k) { return qhashmurmur3_32(k.data(), k.size()) % (uint32_t)cap; }
    size_t used_model() { size_t u = 0; for (auto &kv : m) u += slots_for(kv.second.size()); return u; }

    std::string gen_key(bool strapi) {
        int k = s.pick({6, 3, 2, 1});
        std::string r;
        if (k == 0) { size_t len = (size_t)s.range(1, 3); for (size_t i = 0; i < len; i++) r.push_back("abc"[s.range(0, 2)]); }
        else if (k == 1) { size_t len = (size_t)s.range(4, 15); for (size_t i = 0; i < len; i++) r.push_back("abcdefgh"[s.range(0, 7)]); }
        else if (k == 2) {   // long keys sharing the 16-byte prefix and the length
            static const size_t lens[] = {16, 17, 20, 33, 300};
            size_t len = lens[s.range(0, 4)];
            r = "PREFIX-SHARED-16";
            while (r.size() < len) r.push_back("xyz"[s.range(0, 2)]);
        } else { size_t len = s.chance(1, 6) ? (size_t)s.range(65530, 65534) : (size_t)s.range(40, 2000); uint8_t b = (uint8_t)s.range(1, 255); r.assign(len, (char)b); r[len / 2] = (char)s.range(1, 255); }
        if (strapi) { for (auto &ch : r) if (ch == 0) ch = 1; r.push_back('\0'); }
        else if (s.chance(1, 3) && !r.empty()) r[s.range(0, (long)r.size() - 1)] = '\0';    // binary names may embed NULs
        return r;
    }
    std::string gen_value() {
        int k = s.pick({4, 3, 3, 2, 1});
        size_t len;
        if (k == 0) len = (size_t)s.range(1, 31);
        else if (k == 1) len = (size_t)s.range(31, 34);
        else if (k == 2) { long kk = s.range(1, 6); len = (size_t)(32 + 66 * kk + s.range(-1, 1)); }
        else if (k == 3) len = (size_t)s.range(35, 500);
        else { long freeslots = cap - (long)used_model(); if (freeslots < 1) freeslots = 1; len = (size_t)(32 + 66 * (freeslots - 1) + s.range(-70, 70)); if ((long)len < 1) len = 1; }
        int fill = (int)s.range(0, 2);
        uint32_t x = (uint32_t)s.u8() * 2654435761u + 7u;
        std::string v; v.reserve(len);
        for (size_t i = 0; i < len; i++) { x = x * 1103515245u + 12345u; v.push_back(fill == 0 ? (char)0 : fill == 1 ? (char)(x >> 16) : (char)('a' + (x >> 16) % 26)); }
        return v;
    }

    // ---------------------------------------------------------------- independent image checker
    void check_image(qhasharr_t *h, const char *after) {
        qhasharr_data_t *d = h->data;
        qhasharr_slot_t *sl = slots(h);
        int max = d->maxslots;
        if (max != cap) c.fail(SHAPE, "hasharr:image-maxslots", "after %s: header maxslots=%d, table was created with %d", after, max, cap);
        std::vector<int> owner(max, -1);
        int used = 0, keys = 0;
        for (int i = 0; i < max; i++) if (sl[i].count != 0) used++;
        for (int i = 0; i < max; i++) {
            short cnt = sl[i].count;
            if (cnt == 0 || cnt == -2) continue;
            if (cnt < -2) c.fail(SHAPE, "hasharr:image-count", "after %s: slot %d has count %d", after, i, (int)cnt);
            keys++;
            if (cnt > 0) {
                if ((int)sl[i].hash != i) c.fail(SHAPE, "hasharr:image-leading-home", "after %s: leading slot %d records home %u", after, i, sl[i].hash);
                int n = 0;
                for (int j = 0; j < max; j++) if ((sl[j].count > 0 || sl[j].count == -1) && (int)sl[j].hash == i) n++;
                if (n != cnt) c.fail(SHAPE, "hasharr:image-collision-count", "after %s: leading slot %d says %d keys share its home, %d key slots do", after, i, (int)cnt, n);
            } else {
                int hm = (int)sl[i].hash;
                if (hm < 0 || hm >= max || hm == i) c.fail(SHAPE, "hasharr:image-collision-home", "after %s: collision slot %d records home %d", after, i, hm);
                if (sl[hm].count <= 0) c.fail(SHAPE, "hasharr:image-collision-orphan", "after %s: collision slot %d has home %d which is not a leading slot (count %d)", after, i, hm, (int)sl[hm].count);
            }
            uint16_t ns = sl[i].data.pair.namesize;
            if (ns == 0) c.fail(SHAPE, "hasharr:image-namesize", "after %s: key slot %d has namesize 0", after, i);
            if (ns <= Q_HASHARR_NAMESIZE) {
                uint32_t hm = qhashmurmur3_32(sl[i].data.pair.name, ns) % (uint32_t)max;
                if (hm != sl[i].hash) c.fail(SHAPE, "hasharr:image-home-mismatch", "after %s: key in slot %d hashes to home %u but records %u", after, i, hm, sl[i].hash);
            }
            // value chain
            int cur = i, steps = 0, prev = -1;
            while (true) {
                if (owner[cur] != -1) c.fail(SHAPE, "hasharr:image-shared-slot", "after %s: slot %d belongs to the keys in slots %d and %d", after, cur, owner[cur], i);
                owner[cur] = i;
                if (cur != i) {
                    if (sl[cur].count != -2) c.fail(SHAPE, "hasharr:image-chain-type", "after %s: value chain of slot %d runs into slot %d with count %d", after, i, cur, (int)sl[cur].count);
                    if ((int)sl[cur].hash != prev) c.fail(SHAPE, "hasharr:image-backlink", "after %s: extension slot %d has back link %u, its predecessor is %d", after, cur, sl[cur].hash, prev);
                    if (sl[cur].datasize < 1 || sl[cur].datasize > sizeof(sl[cur].data.ext.data)) c.fail(SHAPE, "hasharr:image-datasize", "after %s: extension slot %d holds %d bytes", after, cur, (int)sl[cur].datasize);
                } else if (sl[cur].datasize < 1 || sl[cur].datasize > Q_HASHARR_DATASIZE) c.fail(SHAPE, "hasharr:image-datasize", "after %s: key slot %d holds %d value bytes", after, cur, (int)sl[cur].datasize);
                int nx = sl[cur].link;
                if (nx == -1) break;
                if (nx < 0 || nx >= max) c.fail(SHAPE, "hasharr:image-link-range", "after %s: slot %d links to %d", after, cur, nx);
                if (++steps > max) c.fail(SHAPE, "hasharr:image-chain-cycle", "after %s: value chain of slot %d does not terminate", after, i);
                prev = cur; cur = nx;
            }
        }
        for (int i = 0; i < max; i++) if (sl[i].count == -2 && owner[i] == -1) c.fail(SHAPE, "hasharr:image-orphan-block", "after %s: extension slot %d is not reachable from any key", after, i);
        if (d->usedslots != used) c.fail(SHAPE, "hasharr:image-usedslots", "after %s: header usedslots=%d, %d slots are occupied", after, d->usedslots, used);
        if (d->num != keys) c.fail(SHAPE, "hasharr:image-num", "after %s: header num=%d, %d key slots exist", after, d->num, keys);
    }

    // observe the whole table through handle h and compare with the model
    void observe(qhasharr_t *h, uint32_t cls, const char *who) {
        int mx = -1, us = -1;
        int n = qhasharr_size(h, &mx, &us);
        if (n != (int)m.size() || mx != cap || us != (int)used_model())
            c.fail(cls, cls == FUNC ? "hasharr:size" : "hasharr:second-handle-size", "%s: size()=(%d keys, %d max, %d used), expected (%zu, %d, %zu)", who, n, mx, us, m.size(), cap, used_model());
        std::multiset<std::pair<std::string, std::string>> want, got;
        for (auto &kv : m) want.insert({kv.first.substr(0, 16), kv.second});
        int idx = 0; qhasharr_obj_t o; size_t steps = 0;
        bool lookups = !m.empty() && s.chance(1, 3);     // read-only calls between the steps: the table stays unmodified
        while (qhasharr_getnext(h, &o, &idx)) {
            if (lookups && s.chance(1, 2)) {
                auto gi = m.begin(); std::advance(gi, s.range(0, (long)m.size() - 1));
                size_t gsz = 0; void *p = qhasharr_get_by_obj(h, gi->first.data(), gi->first.size(), &gsz);
                bool gok = p && gsz == gi->second.size() && memcmp(p, gi->second.data(), gsz) == 0;
                free(p);
                if (!gok) { free(o.name); free(o.data); c.fail(cls, cls == FUNC ? "hasharr:get-bytes" : "hasharr:second-handle-get", "%s: get between two steps of a walk returned the wrong value for key %s", who, hexs(gi->first).c_str()); }
            }
            if (++steps > m.size() + 4) { free(o.name); free(o.data); c.fail(cls, "hasharr:walk-endless", "%s: walk returns more entries than keys", who); }
            got.insert({std::string((char *)o.name, o.namesize), std::string((char *)o.data, o.datasize)});
            if (cls == FUNC) { see(o.data, o.datasize); give_back(o.name, std::string((char *)o.name, o.namesize), "getnext.name"); give_back(o.data, std::string((char *)o.data, o.datasize), "getnext.data"); }
            else { free(o.name); free(o.data); }
        }
        if (want != got) c.fail(cls, cls == FUNC ? "hasharr:walk" : "hasharr:second-handle-walk", "%s: walk returned %zu entries that differ from the %zu (first 16 name bytes, value) pairs stored", who, got.size(), want.size());
        for (auto &kv : m) {
            size_t sz = 0; void *p = qhasharr_get_by_obj(h, kv.first.data(), kv.first.size(), &sz);
            bool ok = p && sz == kv.second.size() && memcmp(p, kv.second.data(), sz) == 0;
            free(p);
            if (!ok) c.fail(cls, cls == FUNC ? "hasharr:get-bytes" : "hasharr:second-handle-get", "%s: key %s does not return its value", who, hexs(kv.first).c_str());
        }
    }
    void after_op(const char *what) {
        size_t w;
        if (!reg.canaries_ok(&w)) c.fail(IMAGE, "hasharr:canary", "after %s: byte %zu outside the user-supplied region was overwritten", what, w);
        int mx = -1, us = -1;
        unsigned sel = (unsigned)(m.size() + used_model()) & 7u;      // both out-parameters are optional ("if not NULL"): now and then leave one or both out
        int n = qhasharr_size(t, sel == 1 || sel == 3 ? nullptr : &mx, sel == 2 || sel == 3 ? nullptr : &us);
        if (sel == 1 || sel == 3) mx = cap;
        if (sel == 2 || sel == 3) us = (int)used_model();
        if (n != (int)m.size() || mx != cap || us != (int)used_model())
            c.fail(FUNC, "hasharr:size", "after %s: size()=(%d keys, %d max, %d used), model (%zu, %d, %zu)", what, n, mx, us, m.size(), cap, used_model());
        if (c.decides(SHAPE)) check_image(t, what);
        if (twin) {
            if (!twinreg.canaries_ok(&w)) c.fail(IMAGE, "hasharr:canary", "after %s: byte %zu outside the twin region was overwritten", what, w);
            if (memcmp(reg.mem(), twinreg.mem(), reg.size) != 0) {
                size_t i = 0; while (reg.mem()[i] == twinreg.mem()[i]) i++;
                c.fail(IMAGE, "hasharr:image-not-deterministic", "after %s: the same history at another address gives a different image (first difference at byte %zu): the image depends on process addresses", what, i);
            }
        }
        c.check_san(what);
    }

    // ---------------------------------------------------------------- operations
    void do_put(const std::string &k, bool strapi) {
        std::string v = gen_value();
        int api = strapi ? (int)s.pick({3, 2, 1, 2}) : 3;      // put putstr putstrf put_by_obj
        if (api == 1 || api == 2) { for (auto &ch : v) if (ch == 0) ch = 'n'; }
        if (api == 2 && v.size() > 900) v.resize(900);
        if (api == 2 && s.chance(1, 6)) { static const size_t edge[] = {16, 32, 64, 128, 256, 512, 1024}; size_t len = edge[s.range(0, 6)] + (size_t)s.range(0, 3) - 2; v.assign(len, 'f'); for (size_t i = 0; i < len; i += 7) v[i] = (char)('a' + i % 26); }
        std::string stored = (api == 1 || api == 2) ? v + std::string(1, '\0') : v;
        bool present = m.count(k) > 0;
        size_t used = used_model(), need = slots_for(stored.size()), rel = present ? slots_for(m[k].size()) : 0;
        bool expect = used < (size_t)cap && need <= (size_t)cap - used + rel;
        bool reloc = slots(t)[home(k)].count < 0;
        Buf kb(k), vb(stored);
        bool ok = false, ok2 = false;
        for (int rep = 0; rep < (twin ? 2 : 1); rep++) {
            qhasharr_t *h = rep ? twin : t;
            errno = poison; bool r;
            switch (api) {
                case 0: r = qhasharr_put(h, kb.c(), vb.p, vb.n); break;
                case 1: r = qhasharr_putstr(h, kb.c(), vb.c()); break;
                case 2: r = qhasharr_putstrf(h, kb.c(), "%s", vb.c()); break;
                default: r = qhasharr_put_by_obj(h, kb.p, kb.n, vb.p, vb.n);
            }
            if (rep) ok2 = r; else ok = r;
        }
        int e = errno;
        if (scribble) { kb.scribble(); vb.scribble(); }
        c.op("%s(%s,%zuB)%s%s -> %s", api == 0 ? "put" : api == 1 ? "putstr" : api == 2 ? "putstrf" : "put_by_obj", hexs(k, 10).c_str(), stored.size(), present ? " [replace]" : "", reloc ? " [relocates foreign block]" : "", expect ? "fits" : "must be refused");
        seei(ok);
        if (twin && ok != ok2) c.fail(IMAGE, "hasharr:image-not-deterministic", "put succeeded at one address and failed at the other");
        if (ok != expect) c.fail(FUNC, "hasharr:put-space", "put of %zu bytes (%zu slots) with %zu of %d slots used%s returned %d, expected %d (errno=%d)", stored.size(), need, used, cap, present ? strf(", replacing a %zu-slot value", rel).c_str() : "", (int)ok, (int)expect, e);
        if (ok) { m[k] = stored; if (reloc) { relocs++; nt_space++; } }
        else {
            if (e != ENOBUFS) c.fail(FUNC, "hasharr:put-errno", "refused put: errno=%d, expected ENOBUFS", e);
            if (need > 1) nt_space++;
            if (present) {
                size_t sz = 0; void *p = qhasharr_get_by_obj(t, k.data(), k.size(), &sz);
                if (!p) m.erase(k);
                else { bool same = sz == m[k].size() && memcmp(p, m[k].data(), sz) == 0; free(p); if (!same) c.fail(FUNC, "hasharr:put-partial", "refused put left key %s with a value that is neither the old one nor absent", hexs(k).c_str()); }
            } else {
                void *p = qhasharr_get_by_obj(t, k.data(), k.size(), nullptr);
                if (p) { free(p); c.fail(FUNC, "hasharr:put-partial", "refused put left key %s present", hexs(k).c_str()); }
            }
        }
    }
    void do_get(const std::string &k, bool strapi) {
        int api = strapi ? (int)s.pick({2, 1, 2}) : 2;
        Buf kb(k);
        size_t sz = 31337; void *p;
        errno = poison;
        if (api == 0) p = qhasharr_get(t, kb.c(), &sz);
        else if (api == 1) p = qhasharr_getstr(t, kb.c());
        else p = qhasharr_get_by_obj(t, kb.p, kb.n, &sz);
        int e = errno;
        c.op("%s(%s)", api == 0 ? "get" : api == 1 ? "getstr" : "get_by_obj", hexs(k, 10).c_str());
        auto it = m.find(k);
        if (it == m.end()) {
            seei(p != nullptr);
            if (p) { free(p); c.fail(FUNC, "hasharr:get-absent", "get(%s) returned data for an absent key", hexs(k).c_str()); }
            if (e != ENOENT) c.fail(FUNC, "hasharr:get-errno", "get of absent key: errno=%d, expected ENOENT", e);
            return;
        }
        if (!p) c.fail(FUNC, "hasharr:get-missing", "get(%s) returned NULL but the key is present", hexs(k).c_str());
        if (api != 1 && sz != it->second.size()) { free(p); c.fail(FUNC, "hasharr:get-size", "get(%s) size %zu, expected %zu", hexs(k).c_str(), sz, it->second.size()); }
        if (memcmp(p, it->second.data(), it->second.size()) != 0) { free(p); c.fail(FUNC, "hasharr:get-bytes", "get(%s) returned other bytes than last put", hexs(k).c_str()); }
        see(p, it->second.size());
        give_back(p, it->second, "get");
    }
    void do_remove(const std::string &k, bool strapi) {
        bool present = m.count(k) > 0;
        bool promote = false;
        if (present) { qhasharr_slot_t *sl = slots(t); uint32_t h = home(k); if (sl[h].count > 1) { uint16_t ns = sl[h].data.pair.namesize; if (ns == k.size() && memcmp(sl[h].data.pair.name, k.data(), ns < 16 ? ns : 16) == 0) promote = true; } }
        Buf kb(k);
        bool ok = false, ok2 = false; int e = 0;
        bool bystr = strapi && s.boolean();
        for (int rep = 0; rep < (twin ? 2 : 1); rep++) {
            qhasharr_t *h = rep ? twin : t;
            errno = poison;
            bool r = bystr ? qhasharr_remove(h, kb.c()) : qhasharr_remove_by_obj(h, kb.c(), kb.n);
            if (rep) ok2 = r; else { ok = r; e = errno; }
        }
        if (scribble) kb.scribble();
        c.op("remove(%s)%s%s", hexs(k, 10).c_str(), present ? " [present]" : " [absent]", promote ? " [promotes a collision key]" : "");
        seei(ok);
        if (twin && ok != ok2) c.fail(IMAGE, "hasharr:image-not-deterministic", "remove succeeded at one address and failed at the other");
        if (ok != present) c.fail(FUNC, "hasharr:remove-result", "remove(%s) returned %d but the key was %s (errno=%d)", hexs(k).c_str(), (int)ok, present ? "present" : "absent", e);
        if (!present && e != ENOENT) c.fail(FUNC, "hasharr:remove-errno", "remove of absent key: errno=%d, expected ENOENT", e);
        if (present) { m.erase(k); removed_any++; if (promote) nt_space++; }
    }
    // calls the library documents as refused (EINVAL): they must fail, say so, and leave the image alone
    void do_refused(const std::string &k) {
        int kind = (int)s.range(0, 7);
        Buf kb(k); std::string v = gen_val(false, 20); Buf vb(v);
        std::string before((const char *)reg.mem(), reg.size);
        errno = poison; bool ok; const char *what;
        switch (kind) {
            case 0: ok = qhasharr_put_by_obj(t, nullptr, kb.n, vb.p, vb.n); what = "put_by_obj(NULL name)"; break;
            case 1: ok = qhasharr_put_by_obj(t, kb.p, 0, vb.p, vb.n); what = "put_by_obj(name size 0)"; break;
            case 2: ok = qhasharr_put_by_obj(t, kb.p, kb.n, nullptr, vb.n); what = "put_by_obj(NULL data)"; break;
            case 3: ok = qhasharr_put_by_obj(t, kb.p, kb.n, vb.p, 0); what = "put_by_obj(data size 0)"; break;
            case 4: { size_t sz = 0; ok = qhasharr_get_by_obj(t, kb.p, 0, &sz) != nullptr; what = "get_by_obj(name size 0)"; break; }
            case 5: ok = qhasharr_remove_by_obj(t, (const char *)kb.p, 0); what = "remove_by_obj(name size 0)"; break;
            case 6: ok = qhasharr_remove_by_idx(t, -1 - (int)s.range(0, 3)); what = "remove_by_idx(negative)"; break;
            default: { int idx = 0; ok = qhasharr_getnext(t, nullptr, &idx); what = "getnext(NULL obj)"; }
        }
        int e = errno;
        c.op("refused call %s, key %s [%s]", what, hexs(k, 10).c_str(), m.count(k) ? "present" : "absent");
        if (ok) c.fail(FUNC, "hasharr:invalid-accepted", "%s succeeded, documented EINVAL", what);
        if (e != EINVAL) c.fail(FUNC, "hasharr:invalid-errno", "%s: errno=%d, documented EINVAL", what, e);
        if (memcmp(before.data(), reg.mem(), reg.size) != 0) c.fail(FUNC | IMAGE, "hasharr:invalid-modified", "%s modified the table memory", what);
    }
    void do_remove_idx() {
        int idx = (int)s.range(0, cap - 1);
        qhasharr_slot_t *sl = slots(t);
        short cnt = sl[idx].count;
        // identify the target by an independent read of the slot
        std::string target; bool found = false;
        if (cnt > 0 || cnt == -1) {
            uint16_t ns = sl[idx].data.pair.namesize;
            for (auto &kv : m) {
                if (kv.first.size() != ns) continue;
                if (memcmp(kv.first.data(), sl[idx].data.pair.name, ns < 16 ? ns : 16) != 0) continue;
                if (ns > 16) { unsigned char d[16]; qhashmd5(kv.first.data(), kv.first.size(), d); if (memcmp(d, sl[idx].data.pair.namemd5, 16) != 0) continue; }
                target = kv.first; found = true; break;
            }
            if (!found) c.fail(FUNC, "hasharr:slot-unknown-key", "slot %d holds a key that is not in the model", idx);
        }
        bool promote = cnt > 1;
        bool ok = false, ok2 = false; int e = 0;
        std::string before((const char *)reg.mem(), reg.size);
        for (int rep = 0; rep < (twin ? 2 : 1); rep++) { errno = poison; bool r = qhasharr_remove_by_idx(rep ? twin : t, idx); if (rep) ok2 = r; else { ok = r; e = errno; } }
        c.op("remove_by_idx(%d) [%s]", idx, found ? hexs(target, 10).c_str() : cnt == 0 ? "empty slot" : "extension block");
        seei(ok);
        if (twin && ok != ok2) c.fail(IMAGE, "hasharr:image-not-deterministic", "remove_by_idx succeeded at one address and failed at the other");
        if (ok != found) c.fail(FUNC, "hasharr:remove-idx-result", "remove_by_idx(%d) returned %d, slot %s (errno=%d)", idx, (int)ok, found ? "holds a key" : "holds no key", e);
        if (!found) {
            // documented: ENOENT "index is not pointing a valid object"; and a refused call changes nothing
            if (e != ENOENT) c.fail(FUNC, "hasharr:remove-idx-errno", "remove_by_idx(%d) on %s: errno=%d, documented ENOENT", idx, cnt == 0 ? "an empty slot" : "an extension block", e);
            if (memcmp(before.data(), reg.mem(), reg.size) != 0) c.fail(FUNC, "hasharr:remove-idx-modified", "refused remove_by_idx(%d) on %s modified the table memory", idx, cnt == 0 ? "an empty slot" : "an extension block");
        }
        if (found) { m.erase(target); removed_any++; if (promote) nt_space++; }
    }
    void second_handle() {
        int kind = (int)s.pick({2, 2, 2, 3});
        if (kind == 3) {
            // two long-lived handles (two processes mapping the same memory): the history continues through the other one,
            // the former keeps whatever it holds privately and comes back later - what one handle did, the other must see
            if (!alt) { alt = qhasharr(reg.mem(), 0); if (!alt) c.fail(IMAGE, "hasharr:attach", "qhasharr(mem,0) on an initialised region returned NULL"); }
            std::swap(t, alt); handle_swaps++;
            c.op("continue through the other long-lived handle on the same memory (swap #%d)", handle_swaps);
            c.tag("two_long_lived_handles");
            observe(t, IMAGE, "the other long-lived handle on the same memory");
        } else if (kind == 0) {
            c.op("attach second handle to the same memory and observe");
            qhasharr_t *h2 = qhasharr(reg.mem(), 0);
            if (!h2) c.fail(IMAGE, "hasharr:attach", "qhasharr(mem,0) on an initialised region returned NULL");
            struct G { qhasharr_t *h; ~G() { qhasharr_free(h); } } g{h2};
            observe(h2, IMAGE, "second handle on the same memory");
        } else if (kind == 1) {
            size_t off = 4 * (size_t)s.range(0, 15);
            c.op("copy image to another address (offset %zu) and observe through a new handle", off);
            Region r2; r2.make(reg.size, off, true);
            memcpy(r2.mem(), reg.mem(), reg.size);
            qhasharr_t *h2 = qhasharr(r2.mem(), 0);
            if (!h2) c.fail(IMAGE, "hasharr:attach", "qhasharr(copy,0) returned NULL");
            struct G { qhasharr_t *h; ~G() { qhasharr_free(h); } } g{h2};
            observe(h2, IMAGE, "handle on a byte copy at another address");
            check_image(h2, "copying the image");
        } else {
            size_t off = 4 * (size_t)s.range(0, 15);
            bool guard = s.chance(3, 4);
            c.op("switch: continue through a byte copy at another address (offset %zu%s)", off, guard ? "" : ", exact-size block");
            Region r2; r2.make(reg.size, off, guard);
            memcpy(r2.mem(), reg.mem(), reg.size);
            memset(reg.mem(), 0xDD, reg.size);                 // the old mapping is gone
            qhasharr_free(t); t = nullptr;
            if (alt) { qhasharr_free(alt); alt = nullptr; }   // its mapping is gone as well
            std::swap(reg.base, r2.base); std::swap(reg.off, r2.off); std::swap(reg.total, r2.total); std::swap(reg.guarded, r2.guarded);
            t = qhasharr(reg.mem(), 0);
            if (!t) c.fail(IMAGE, "hasharr:attach", "qhasharr(copy,0) returned NULL");
            handle_switches++;
            if (relocs || removed_any) nt_image++;
            observe(t, IMAGE, "handle on the relocated image");
        }
    }

    void run() {
        draw_poison();
        bool m7 = c.mode == "C07";
        int ck = (int)s.pick({4, 3, 2});
        cap = ck == 0 ? (int)s.range(2, 6) : ck == 1 ? (int)s.range(7, 16) : (int)s.range(17, 48);
        bool guard = s.chance(2, 3);
        size_t off = 4 * (size_t)s.range(0, 15);
        // any region size is legal: up to one slot minus one byte of slack must not add a slot
        size_t memsize = qhasharr_calculate_memsize(cap) + (s.boolean() ? (size_t)s.range(0, 3) : (size_t)s.range(0, (long)sizeof(qhasharr_slot_t) - 1));
        bool strapi = s.pick({1, 1}) == 0;
        do_twin = m7;
        size_t U = (size_t)s.range(3, (long)cap * 2 + 4);
        vf_ledger_on = 1;
        reg.make(memsize, off, guard);
        t = qhasharr(reg.mem(), memsize);
        if (!t) c.fail(FUNC, "hasharr:ctor", "qhasharr(mem,%zu) returned NULL", memsize);
        { int mx = 0; qhasharr_size(t, &mx, nullptr); if (mx != cap) c.fail(FUNC | IMAGE, "hasharr:ctor-capacity", "a %zu-byte region has room for %d slots after the header, the table claims %d: the last slot would lie outside the region", memsize, cap, mx); }
        if (do_twin) { twinreg.make(memsize, 4 * (size_t)s.range(0, 15) + 4, true); twin = qhasharr(twinreg.mem(), memsize); if (!twin) c.fail(FUNC, "hasharr:ctor", "twin ctor failed"); }
        for (size_t i = 0; i < U; i++) universe.push_back(gen_key(strapi));
        c.op("hasharr(capacity=%d, %s names, universe=%zu, region %s at offset %zu)", cap, strapi ? "string" : "binary", U, guard ? "inside canaries" : "exact-size block", off);
        int maxops = c.tier ? 1500 : 300, ops = 0;
        while (!s.exhausted() && ops++ < maxops) {
            int o = (int)s.pick({34, 10, 18, 6, 1, 4, 1, m7 ? 8 : 2, 2});
            const char *what = "op";
            const std::string &uk = universe[s.range(0, (long)U - 1)];
            switch (o) {
                case 0: do_put(uk, strapi); what = "put"; break;
                case 1: do_get(s.chance(1, 8) ? gen_key(strapi) : uk, strapi); what = "get"; break;
                case 2: do_remove(s.chance(1, 10) ? gen_key(strapi) : uk, strapi); what = "remove"; break;
                case 3: do_remove_idx(); what = "remove_by_idx"; break;
                case 4: qhasharr_clear(t); if (twin) qhasharr_clear(twin); c.op("clear()"); note_outlived(); m.clear(); verify_kept(false); what = "clear"; break;
                case 5: c.op("walk + get all"); observe(t, FUNC, "walk"); what = "walk"; break;
                case 6: { if (!devnull) devnull = fopen("/dev/null", "w"); bool ok = qhasharr_debug(t, devnull); c.op("debug()"); if (!ok) c.fail(FUNC, "hasharr:debug", "debug() returned false"); what = "debug"; break; }
                case 8: do_refused(uk); what = "refused call"; break;
                default: second_handle(); what = "second handle";
            }
            after_op(what);
        }
        c.op("final walk + get all"); observe(t, FUNC, "final walk");
        if (alt) { c.op("final observation through the other long-lived handle"); observe(alt, IMAGE, "the other long-lived handle at the end of the history"); }
        if (m7) { c.op("final copy + observe"); Region r2; r2.make(reg.size, 4, true); memcpy(r2.mem(), reg.mem(), reg.size); qhasharr_t *h2 = qhasharr(r2.mem(), 0); if (!h2) c.fail(IMAGE, "hasharr:attach", "attach failed"); struct G { qhasharr_t *h; ~G() { qhasharr_free(h); } } g{h2}; observe(h2, IMAGE, "final copy"); check_image(h2, "final copy"); }
        after_op("final observation");
        note_outlived(); verify_kept(false);
        bool nonempty = !m.empty();
        qhasharr_free(t); t = nullptr;
        if (alt) { qhasharr_free(alt); alt = nullptr; }
        if (twin) { qhasharr_free(twin); twin = nullptr; }
        c.op("free()");
        verify_kept(true);
        leak_verdict("qhasharr_free");
        c.tag(cap <= 6 ? "capacity_2-6" : cap <= 16 ? "capacity_7-16" : "capacity_17-48");
        if (relocs) c.tag("case_with_relocation"); if (handle_switches) c.tag("case_with_handle_switch");
        if (c.mode == "C06") c.nontrivial = nt_space > 0;
        else if (c.mode == "C07") c.nontrivial = nt_image > 0;
        else if (c.mode == "C11") c.nontrivial = removed_any > 0 && nonempty;
        else if (c.mode == "C12") c.nontrivial = copies_outlived > 0;
    }
};
}  // namespace

bool vf_configure(Ctx &c) {
    if (c.mode == "C07") { c.noteonly = LEAK | MEM; c.deciding = IMAGE | SHAPE | CRASH | HANG; return true; }
    return configure_container(c, "C06", FUNC);
}
void run_case(Src &s, Ctx &c) { run_modes<Run>(s, c, "hasharr"); }

// ---------------------------------------------------------------------------------------------
// Bounded-exhaustive part for C06/C07: breadth-first search over EVERY table image reachable for
// a tiny table (capacity 2..4 per worker) with 4 keys chosen to collide and 3 value sizes
// (1, 33, 99 bytes = 1, 2, 3 slots) by put / remove / remove_by_idx / clear.  States are
// deduplicated on the image bytes; because the image is self-contained a state is re-entered
// by copying its bytes to a fresh region and attaching a handle (itself an exercise of C07).
// After every transition: space model verdict of the put, size triple, full walk + gets against
// the model (C06), independent well-formedness walk (C07); two histories that reach the same
// image must agree on the model.
bool vf_enumerate(Ctx &c, EnumStats &st) {
    int shard = 0, nshards = 1;
    if (const char *e = getenv("VF_ENUM_SHARD")) sscanf(e, "%d/%d", &shard, &nshards);
    int cap = 2 + shard % 3;
    if (c.tier && shard >= 3) cap = 5;
    size_t memsize = qhasharr_calculate_memsize(cap);
    uint8_t zero[4] = {0};
    // keys: search a few short names until two share a home slot and one more hits another key's neighbour
    std::vector<std::string> keys;
    {
        std::map<uint32_t, std::vector<std::string>> byhome;
        for (int i = 0; i < 200 && keys.size() < 4; i++) {
            std::string k = "k" + std::to_string(i + shard * 7); k.push_back('\0');
            uint32_t h = qhashmurmur3_32(k.data(), k.size()) % (uint32_t)cap;
            if (byhome[h].size() < 2) { byhome[h].push_back(k); keys.push_back(k); }
        }
        keys.push_back(std::string("PREFIX-SHARED-16a") + std::string(1, '\0'));     // long key: matched by length, prefix, digest
    }
    static const size_t vsz[] = {1, 33, 99};
    struct State { std::string image; std::map<std::string, std::string> model; };
    std::map<std::string, std::map<std::string, std::string>> seen;
    std::vector<std::string> frontier;
    { std::vector<uint8_t> mem(memsize + 8); uint8_t *p = mem.data(); p += (8 - ((uintptr_t)p & 7)) & 7; qhasharr_t *t0 = qhasharr(p, memsize); if (!t0) throw CaseStop{"ctor"}; std::string img((char *)p, memsize); qhasharr_free(t0); seen[img] = {}; frontier.push_back(img); }
    size_t K = keys.size();
    int ntrans = (int)(K * 3 + K + cap + 1);
    uint64_t limit = c.tier ? 400000 : 60000;
    while (!frontier.empty() && seen.size() < limit) {
        std::vector<std::string> next;
        for (auto &img : frontier) {
            for (int tr = 0; tr < ntrans; tr++) {
                vf_ledger_reset(); vf_ledger_on = 1;       // copies handed out by the walk are checked through the ledger
                Src s0(zero, 0);
                Run r(s0, c, false, false);
                r.cap = cap; r.m = seen[img];
                r.reg.make(memsize, 4 * (size_t)((tr + shard) % 8), true);
                memcpy(r.reg.mem(), img.data(), memsize);
                r.t = qhasharr(r.reg.mem(), 0);
                if (!r.t) c.fail(IMAGE, "hasharr:attach", "qhasharr(copy,0) returned NULL");
                std::string what;
                if (tr < (int)(K * 3)) {
                    const std::string &k = keys[(size_t)tr / 3]; std::string v(vsz[tr % 3], (char)('a' + tr % 26));
                    bool present = r.m.count(k) > 0;
                    size_t used = r.used_model(), need = slots_for(v.size()), rel = present ? slots_for(r.m[k].size()) : 0;
                    bool expect = used < (size_t)cap && need <= (size_t)cap - used + rel;
                    errno = 0;
                    bool ok = qhasharr_put_by_obj(r.t, k.data(), k.size(), v.data(), v.size());
                    what = strf("put(%s,%zuB)", hexs(k, 8).c_str(), v.size());
                    c.trace = "enumerated image state (" + std::to_string(r.m.size()) + " keys) then " + what;
                    if (ok != expect) c.fail(FUNC, "hasharr:put-space", "%s with %zu of %d slots used returned %d, expected %d", what.c_str(), used, cap, (int)ok, (int)expect);
                    if (ok) r.m[k] = v;
                    else { if (errno != ENOBUFS) c.fail(FUNC, "hasharr:put-errno", "refused put: errno=%d", errno); if (present) { void *p = qhasharr_get_by_obj(r.t, k.data(), k.size(), nullptr); if (!p) r.m.erase(k); else free(p); } if (need > 1) st.nontrivial++; }
                } else if (tr < (int)(K * 4)) {
                    const std::string &k = keys[(size_t)tr - K * 3]; bool present = r.m.count(k) > 0;
                    bool ok = qhasharr_remove_by_obj(r.t, k.data(), k.size());
                    what = strf("remove(%s)", hexs(k, 8).c_str()); c.trace = "enumerated image state then " + what;
                    if (ok != present) c.fail(FUNC, "hasharr:remove-result", "%s returned %d, key %s", what.c_str(), (int)ok, present ? "present" : "absent");
                    r.m.erase(k); if (present) st.nontrivial++;
                } else if (tr < (int)(K * 4) + cap) {
                    int idx = tr - (int)(K * 4);
                    qhasharr_slot_t *sl = r.slots(r.t); short cnt = sl[idx].count; std::string target; bool found = false;
                    if (cnt > 0 || cnt == -1) { uint16_t ns = sl[idx].data.pair.namesize; for (auto &kv : r.m) if (kv.first.size() == ns && memcmp(kv.first.data(), sl[idx].data.pair.name, ns < 16 ? ns : 16) == 0) { target = kv.first; found = true; break; } }
                    bool ok = qhasharr_remove_by_idx(r.t, idx);
                    what = strf("remove_by_idx(%d)", idx); c.trace = "enumerated image state then " + what;
                    if (ok != found) c.fail(FUNC, "hasharr:remove-idx-result", "%s returned %d, slot %s", what.c_str(), (int)ok, found ? "holds a key" : "holds no key");
                    if (found) r.m.erase(target);
                } else { qhasharr_clear(r.t); r.m.clear(); what = "clear()"; c.trace = "enumerated image state then clear()"; }
                st.transitions++; st.evaluations++;
                size_t w; if (!r.reg.canaries_ok(&w)) c.fail(IMAGE, "hasharr:canary", "after %s: byte %zu outside the region was overwritten", what.c_str(), w);
                r.check_image(r.t, what.c_str());
                r.observe(r.t, FUNC, what.c_str());
                std::string ni((char *)r.reg.mem(), memsize);
                auto it = seen.find(ni);
                if (it == seen.end()) { seen[ni] = r.m; next.push_back(ni); if (st.samples.size() < 3 && seen.size() % 257 == 3) st.samples.push_back(strf("image state #%zu: capacity %d, %zu keys, reached by %s", seen.size(), cap, r.m.size(), what.c_str())); }
                else if (it->second != r.m) c.fail(IMAGE, "hasharr:image-ambiguous", "two histories reach the same image bytes but disagree on the stored keys/values");
                qhasharr_free(r.t); r.t = nullptr;
            }
        }
        frontier.swap(next);
    }
    if (!frontier.empty()) st.complete = false;
    st.states = seen.size();
    st.extra["max_capacity"] = (uint64_t)cap;
    st.samples.push_back(strf("image BFS: capacity %d, %zu keys x value sizes 1/33/99, %zu distinct images, %llu transitions%s", cap, K, seen.size(), (unsigned long long)st.transitions, st.complete ? "" : " (state limit reached: not complete)"));
    return true;
}
