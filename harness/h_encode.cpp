// h_encode.cpp - URL / Base64 / hex codecs and the query-string parser.  Mode C16: exact
// inverses + standard formats.  pbt cases and a bounded-exhaustive enumerator (all byte strings
// up to length 2 / 3) share the same oracles.
#include "common/vf.hpp"
#include "common/callers.hpp"
#include <cerrno>
#include <sys/mman.h>
extern "C" {
#include "qlibc.h"
}
using namespace vf;
const char *vf_harness_name = "encode";

namespace {
// ---- independent RFC 4648 encoder
std::string ref_b64(const std::string &in) {
    static const char T[] = "ABCDEFGHIJKLMNOPQRSTUVWXYZabcdefghijklmnopqrstuvwxyz0123456789+/";
    std::string o;
    size_t i = 0, n = in.size();
    while (i + 3 <= n) { uint32_t v = ((uint8_t)in[i] << 16) | ((uint8_t)in[i + 1] << 8) | (uint8_t)in[i + 2]; o += T[v >> 18]; o += T[(v >> 12) & 63]; o += T[(v >> 6) & 63]; o += T[v & 63]; i += 3; }
    if (n - i == 1) { uint32_t v = (uint8_t)in[i] << 16; o += T[v >> 18]; o += T[(v >> 12) & 63]; o += "=="; }
    else if (n - i == 2) { uint32_t v = ((uint8_t)in[i] << 16) | ((uint8_t)in[i + 1] << 8); o += T[v >> 18]; o += T[(v >> 12) & 63]; o += T[(v >> 6) & 63]; o += '='; }
    return o;
}
bool ref_selftest() {
    static const char *v[][2] = {{"", ""}, {"f", "Zg=="}, {"fo", "Zm8="}, {"foo", "Zm9v"}, {"foob", "Zm9vYg=="}, {"fooba", "Zm9vYmE="}, {"foobar", "Zm9vYmFy"}};
    for (auto &p : v) if (ref_b64(p[0]) != p[1]) return false;
    return true;
}
bool forbidden_literal(unsigned char ch) { return ch <= 0x20 || ch >= 0x7f || strchr("%+&=?#\"<>", ch) != nullptr; }
int hexval(char ch) { return ch >= '0' && ch <= '9' ? ch - '0' : ch >= 'a' && ch <= 'f' ? ch - 'a' + 10 : ch >= 'A' && ch <= 'F' ? ch - 'A' + 10 : -1; }

struct Counters { std::atomic<uint64_t> url{0}, b64{0}, hex{0}; } g_cnt;

// exact-size heap copy of a C string (decoders work in place)
struct CStr { char *p; size_t n; CStr(const std::string &s) { n = s.size(); p = new char[n + 1]; memcpy(p, s.data(), n); p[n] = 0; } ~CStr() { delete[] p; } };

void check_url(Ctx &c, const std::string &x) {
    char *enc = qurl_encode(x.data(), x.size());
    if (!enc) c.fail(FUNC, "encode:url-null", "qurl_encode returned NULL for %zu bytes", x.size());
    std::string e = enc; free(enc);
    // format: literals are URL-safe printable ASCII, everything else %hh; token-wise decode gives x
    std::string tok;
    for (size_t i = 0; i < e.size();) {
        if (e[i] == '%') {
            int h = i + 2 < e.size() ? hexval(e[i + 1]) : -1, l = i + 2 < e.size() ? hexval(e[i + 2]) : -1;
            if (h < 0 || l < 0) c.fail(FUNC, "encode:url-format", "encoder output contains a malformed escape: %s", hexs(e).c_str());
            tok.push_back((char)(h * 16 + l)); i += 3;
        } else {
            if (forbidden_literal((unsigned char)e[i])) c.fail(FUNC, "encode:url-literal", "qurl_encode emits byte 0x%02x literally (input %s)", (unsigned char)e[i], hexs(x).c_str());
            tok.push_back(e[i]); i++;
        }
    }
    if (tok != x) c.fail(FUNC, "encode:url-format", "encoder output %s does not spell the input %s", hexs(e).c_str(), hexs(x).c_str());
    for (size_t i = 0; i < x.size(); i++) if (forbidden_literal((unsigned char)x[i])) { /* must have been escaped: implied by tok==x and literal check */ }
    // round trip
    { CStr b(e); size_t n = qurl_decode(b.p); if (n != x.size() || memcmp(b.p, x.data(), n) != 0 || b.p[n] != 0) c.fail(FUNC, "encode:url-roundtrip", "qurl_decode(qurl_encode(x)) != x for x=%s (got %zu bytes: %s)", hexs(x).c_str(), n, hexs(b.p, n).c_str()); }
    // metamorphic: hex digit case and '+' for space do not matter
    { std::string u = e; for (size_t i = 0; i + 2 < u.size(); i++) if (u[i] == '%') { u[i + 1] = (char)toupper(u[i + 1]); u[i + 2] = (char)toupper(u[i + 2]); }
      CStr b(u); size_t n = qurl_decode(b.p); if (n != x.size() || memcmp(b.p, x.data(), n) != 0) c.fail(FUNC, "encode:url-hexcase", "upper-case escapes decode differently: %s", hexs(u).c_str()); }
    { std::string u; for (size_t i = 0; i < e.size(); i++) { if (e.compare(i, 3, "%20") == 0) { u.push_back('+'); i += 2; } else u.push_back(e[i]); }
      CStr b(u); size_t n = qurl_decode(b.p); if (n != x.size() || memcmp(b.p, x.data(), n) != 0) c.fail(FUNC, "encode:url-plus", "'+' is not decoded as a space: %s", hexs(u).c_str()); }
    g_cnt.url++;
}
void check_b64(Ctx &c, const std::string &x) {
    char *enc = qbase64_encode(x.data(), x.size());
    if (!enc) c.fail(FUNC, "encode:b64-null", "qbase64_encode returned NULL");
    std::string e = enc; free(enc);
    std::string want = ref_b64(x);
    if (e != want) c.fail(FUNC, "encode:b64-format", "qbase64_encode(%s) = %s, RFC 4648 says %s", hexs(x).c_str(), hexs(e, 48).c_str(), hexs(want, 48).c_str());
    CStr b(e); size_t n = qbase64_decode(b.p);
    if (n != x.size() || memcmp(b.p, x.data(), n) != 0 || b.p[n] != 0) c.fail(FUNC, "encode:b64-roundtrip", "qbase64_decode(qbase64_encode(x)) != x for x=%s (got %zu bytes)", hexs(x).c_str(), n);
    g_cnt.b64++;
}
void check_hex(Ctx &c, const std::string &x) {
    char *enc = qhex_encode(x.data(), x.size());
    if (!enc) c.fail(FUNC, "encode:hex-null", "qhex_encode returned NULL");
    std::string e = enc; free(enc);
    static const char *hx = "0123456789abcdef";
    std::string want; for (unsigned char ch : x) { want.push_back(hx[ch >> 4]); want.push_back(hx[ch & 15]); }
    if (e != want) c.fail(FUNC, "encode:hex-format", "qhex_encode(%s) = %s, expected two lowercase digits per byte: %s", hexs(x).c_str(), hexs(e, 48).c_str(), hexs(want, 48).c_str());
    { CStr b(e); size_t n = qhex_decode(b.p); if (n != x.size() || memcmp(b.p, x.data(), n) != 0 || b.p[n] != 0) c.fail(FUNC, "encode:hex-roundtrip", "qhex_decode(qhex_encode(x)) != x for x=%s", hexs(x).c_str()); }
    { std::string u = e; for (auto &ch : u) ch = (char)toupper(ch); CStr b(u); size_t n = qhex_decode(b.p); if (n != x.size() || memcmp(b.p, x.data(), n) != 0) c.fail(FUNC, "encode:hex-case", "upper-case hex decodes differently: %s", hexs(u).c_str()); }
    g_cnt.hex++;
}

std::string gen_bytes(Src &s, size_t maxlen, bool nul_free) {
    int lk = s.pick({5, 3, 1});
    size_t len = lk == 0 ? (size_t)s.range(0, 8) : lk == 1 ? (size_t)s.range(9, 80) : (size_t)s.range(81, (long)maxlen);
    int cls = (int)s.pick({3, 2, 2, 2, 1});
    std::string r;
    static const char reserved[] = " %+&=?#\"<>;/:@\\-._~!$'()*,[]{}|^`\t\r\n";
    for (size_t i = 0; i < len; i++) {
        int b;
        switch (cls) {
            case 0: b = s.u8(); break;
            case 1: b = "abcXYZ 019"[s.range(0, 9)]; break;
            case 2: b = reserved[s.range(0, (long)sizeof(reserved) - 2)]; break;
            case 3: b = (int)s.range(0x80, 0xff); break;
            default: b = s.chance(1, 2) ? 0 : (int)s.u8();
        }
        if (nul_free && b == 0) b = 1;
        r.push_back((char)b);
    }
    return r;
}

Job gen_query(Src &s, Ctx &c, bool *nontriv) {
    size_t np = (size_t)s.range(0, 12);
    char eq = '=', sep = s.boolean() ? '&' : ';';
    // where the pairs go: a new table (NULL), the caller's table that already holds entries, or a UNIQUE table
    int tblmode = (int)s.pick({4, 2, 2});
    if (np == 1 && s.chance(1, 3)) sep = '\0';                // "no separator": the whole string is one pair
    std::vector<std::pair<std::string, std::string>> pairs;
    std::string q;
    for (size_t i = 0; i < np; i++) {
        std::string n = gen_bytes(s, 40, true), v = gen_bytes(s, 120, true);
        if (tblmode == 2 && i > 0 && s.chance(1, 3)) n = pairs[(size_t)s.range(0, (long)i - 1)].first;     // repeated name
        // names are trimmed by the parser before decoding: a generated name never starts/ends
        // with a blank *after encoding* (blanks are always escaped), so nothing to avoid here
        pairs.push_back({n, v});
        char *en = qurl_encode(n.data(), n.size()), *ev = qurl_encode(v.data(), v.size());
        if (!en || !ev) c.fail(FUNC, "encode:url-null", "qurl_encode returned NULL");
        if (i) q.push_back(sep);
        q += en; q.push_back(eq); q += ev;
        free(en); free(ev);
    }
    // now and then the whole query has exactly (or one off) a length that an internal buffer plausibly has
    if (np >= 1 && s.chance(1, 8)) {
        static const size_t edge[] = {256, 512, 1024, 4096, 8192, 8192, 16384};
        size_t target = edge[s.range(0, 6)] + (size_t)s.range(0, 2) - 1;
        if (target > q.size()) { std::string fill(target - q.size(), 'a'); for (size_t i = 0; i < fill.size(); i += 11) fill[i] = "abz019_-."[i % 9]; pairs[np - 1].second += fill; q += fill; }
    }
    size_t nprior = tblmode == 1 ? (size_t)s.range(1, 4) : 0;
    c.op("qparse_queries(%zu pairs, sep=%s, %zu bytes) into %s", np, sep ? strf("'%c'", sep).c_str() : "NUL", q.size(), tblmode == 0 ? "a new table" : tblmode == 1 ? strf("a table that already holds %zu entries", nprior).c_str() : "a UNIQUE table");
    *nontriv = np >= 2;
    return [pairs, q, eq, sep, np, tblmode, nprior](Ctx &c) {
        int cnt = -7;
        CStr qb(q);
        qlisttbl_t *own = tblmode == 0 ? nullptr : qlisttbl(tblmode == 2 ? QLISTTBL_UNIQUE : 0);
        if (tblmode != 0 && !own) throw CaseStop{"qlisttbl ctor failed"};
        std::vector<std::pair<std::string, std::string>> want;
        for (size_t i = 0; i < nprior; i++) { std::string pn = "prior" + std::to_string(i); qlisttbl_putstr(own, pn.c_str(), "pv"); want.push_back({pn, "pv"}); }
        qlisttbl_t *t = qparse_queries(own, qb.p, eq, sep, &cnt);
        if (!t) { if (own) qlisttbl_free(own); c.fail(FUNC, "encode:query-null", "qparse_queries returned NULL"); }
        struct G { qlisttbl_t *t; ~G() { qlisttbl_free(t); } } g{t};
        if (own && t != own) c.fail(FUNC, "encode:query-table", "qparse_queries did not return the table it was given");
        // documented: the number of parsed entries - of THIS query, whatever the table held before or merges
        if (cnt != (int)np) c.fail(FUNC, "encode:query-count", "qparse_queries reports %d entries, the query was assembled from %zu pairs (%s): %s", cnt, np, tblmode == 0 ? "new table" : tblmode == 1 ? "table with earlier entries" : "UNIQUE table", hexs(q, 80).c_str());
        for (auto &p : pairs) { if (tblmode == 2) for (size_t k = 0; k < want.size();) { if (want[k].first == p.first) want.erase(want.begin() + (long)k); else k++; } want.push_back(p); }
        size_t i = 0;
        for (qlisttbl_obj_t *o = t->first; o; o = o->next, i++) {
            if (i >= want.size()) c.fail(FUNC, "encode:query-pairs", "more entries than pairs");
            if (want[i].first != o->name || o->size != want[i].second.size() + 1 || memcmp(o->data, want[i].second.c_str(), o->size) != 0)
                c.fail(FUNC, "encode:query-pairs", "entry %zu is (%s,%s), expected (%s,%s)", i, hexs(o->name, strlen(o->name)).c_str(), hexs(o->data, o->size).c_str(), hexs(want[i].first).c_str(), hexs(want[i].second).c_str());
        }
        if (i != want.size()) c.fail(FUNC, "encode:query-pairs", "the table holds %zu entries, expected %zu", i, want.size());
    };
}
}  // namespace

static bool g_conc_only = false;
bool vf_configure(Ctx &c) { g_errno_repoison = 1;
    if (c.mode != "C16") return false;
    c.deciding = FUNC | CRASH | HANG; c.noteonly = MEM | LEAK;
    if (!ref_selftest()) { fprintf(stderr, "reference Base64 encoder fails the RFC 4648 vectors\n"); exit(2); }
    g_conc_only = getenv("VF_CONC_ONLY") != nullptr;
    return true;
}

void run_case(Src &s, Ctx &c) {
    if (g_conc_only || s.chance(1, 16)) {
        // concurrent callers: 2..4 threads, each round-tripping private byte strings through 1..3 codecs
        size_t nth = (size_t)s.range(2, 4); int rounds = (int)s.range(10, 100);
        std::vector<std::vector<Job>> jobs(nth);
        for (size_t i = 0; i < nth; i++) {
            int nj = (int)s.range(1, 3);
            for (int j = 0; j < nj; j++) {
                if (s.chance(1, 3)) { bool nt2 = false; c.op("thread %zu:", i); jobs[i].push_back(gen_query(s, c, &nt2)); continue; }
                std::string x = gen_bytes(s, 1024, false); int k = (int)s.range(0, 2);
                c.op("thread %zu: %s round trip + format, %zu bytes: %s", i, k == 0 ? "url" : k == 1 ? "base64" : "hex", x.size(), hexs(x, 16).c_str());
                jobs[i].push_back([x, k](Ctx &q) { if (k == 0) check_url(q, x); else if (k == 1) check_b64(q, x); else check_hex(q, x); });
            }
        }
        c.op("the %zu threads run their round trips %d times concurrently", nth, rounds);
        run_concurrent(c, jobs, rounds, "encode");
        c.check_san("codecs called from several threads");
        c.nontrivial = true; c.tag("concurrent_callers");
        return;
    }
    int tgt = (int)s.pick({3, 3, 3, 3});
    if (tgt == 3) {
        bool nt2 = false; Job j = gen_query(s, c, &nt2);
        // the caller may be in the middle of its own strtok() loop (e.g. splitting a line of queries):
        // the parser must not disturb that hidden libc state
        char sbuf[] = "one two three"; char *t1 = strtok(sbuf, " "); (void)t1;
        j(c);
        char *t2 = strtok(nullptr, " ");
        if (!t2 || strcmp(t2, "two") != 0) c.fail(FUNC, "encode:query-clobbers-strtok", "after qparse_queries the caller's strtok(NULL) continues with %s instead of its own next token", t2 ? hexs(t2, strnlen(t2, 16)).c_str() : "NULL");
        c.nontrivial = nt2; c.tag("query"); c.check_san("query parser"); return; }
    std::string x = gen_bytes(s, 4096, false);
    if (s.chance(1, 40)) {   // far beyond "several KiB": 64-200 KiB of one content class (growth strategies of the encoders' buffers)
        size_t n = ((size_t)64 << 10) + (size_t)s.range(0, 136 << 10); int k = (int)s.range(0, 3);
        x.assign(n, k == 0 ? '\0' : k == 1 ? '\xff' : 'a');
        if (k == 3) { uint32_t h = 2166136261u; for (size_t i = 0; i < n; i++) { h = (h ^ (uint32_t)i) * 16777619u; x[i] = (char)(h >> 13); } }
        else if (s.boolean()) x[n - 1 - (size_t)s.range(0, 7)] = 'z';
        c.tag("input_of_64_to_200_KiB");
    }
    c.op("%s round trip + format, %zu bytes: %s", tgt == 0 ? "url" : tgt == 1 ? "base64" : "hex", x.size(), hexs(x, 16).c_str());
    if (tgt == 0) { check_url(c, x); c.tag("url"); bool esc = false; for (unsigned char ch : x) if (forbidden_literal(ch)) esc = true; c.nontrivial = esc; }
    else if (tgt == 1) { check_b64(c, x); c.tag("base64"); c.nontrivial = x.size() % 3 != 0; }
    else { check_hex(c, x); c.tag("hex"); c.nontrivial = !x.empty(); }
    c.check_san("codec");
}

// bounded-exhaustive: every byte string of length 0..L through all three codecs
bool vf_enumerate(Ctx &c, EnumStats &st) {
    int shard = 0, nshards = 1;
    if (const char *e = getenv("VF_ENUM_SHARD")) sscanf(e, "%d/%d", &shard, &nshards);
    int L = c.tier ? 3 : 2;
    uint64_t idx = 0;
    for (int len = 0; len <= L; len++) {
        uint64_t total = 1; for (int i = 0; i < len; i++) total *= 256;
        for (uint64_t v = 0; v < total; v++, idx++) {
            if ((int)(idx % (uint64_t)nshards) != shard) continue;
            std::string x((size_t)len, '\0');
            uint64_t t = v; for (int i = len - 1; i >= 0; i--) { x[(size_t)i] = (char)(t & 0xff); t >>= 8; }
            c.trace = "enumerated input " + hexs(x);
            check_url(c, x); check_b64(c, x); check_hex(c, x);
            st.evaluations++;
            if (len > 0) st.nontrivial++;
            if (st.samples.size() < 3 && (v % 9973) == 5) st.samples.push_back(c.trace);
        }
    }
    // thorough tier, one shard: in-place decoders on a string of 2^31 characters (lengths that no longer
    // fit a 32-bit int); the buffer is an anonymous mapping, the expected result is known by construction
    if (c.tier && shard == 0) {
        size_t n = ((size_t)1 << 31) + 2;
        char *m = (char *)mmap(nullptr, n + 16, PROT_READ | PROT_WRITE, MAP_PRIVATE | MAP_ANONYMOUS | MAP_NORESERVE, -1, 0);
        if (m != MAP_FAILED) {
            for (int which = 0; which < 2; which++) {
                memset(m, which == 0 ? '4' : 'a', n); m[n] = 0;
                if (which == 0) { m[1] = '1'; m[n - 1] = 'F'; m[n - 2] = 'e'; }       // hex: "41 44 44 ... 44 eF"
                c.trace = which == 0 ? "huge input: qhex_decode of 2^31+2 hex digits" : "huge input: qurl_decode of 2^31+2 literal characters";
                size_t got = which == 0 ? qhex_decode(m) : qurl_decode(m);
                size_t want = which == 0 ? n / 2 : n;
                bool ok = got == want && m[want] == 0 && (which == 0 ? ((unsigned char)m[0] == 0x41 && (unsigned char)m[1] == 0x44 && (unsigned char)m[want - 1] == 0xEF && (unsigned char)m[want / 2] == 0x44) : (m[0] == 'a' && m[want - 1] == 'a'));
                if (!ok) { munmap(m, n + 16); c.fail(FUNC, which == 0 ? "encode:hex-roundtrip" : "encode:url-roundtrip", "%s returned %zu bytes, expected %zu with the bytes written", which == 0 ? "qhex_decode(2^31+2 digits)" : "qurl_decode(2^31+2 characters)", got, want); }
                st.evaluations++; st.nontrivial++; st.samples.push_back(c.trace);
            }
            munmap(m, n + 16);
            st.extra["max_huge_input_chars"] = (uint64_t)n;
        }
    }
    st.states = st.evaluations;
    st.extra["max_length"] = (uint64_t)L;
    st.extra["url_checked"] = g_cnt.url.load(); st.extra["base64_checked"] = g_cnt.b64.load(); st.extra["hex_checked"] = g_cnt.hex.load();
    if (g_san_reports) c.tags["sanitizer_reports"] += (uint64_t)g_san_reports;
    return true;
}
