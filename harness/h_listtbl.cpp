// h_listtbl.cpp - qlisttbl harness.  Modes: C08 (exact ordered multimap under all 16 option
// combinations, sort, save/load), C11, C12.
#include "common/cont.hpp"
#include <cerrno>
#include <cinttypes>
#include <unistd.h>
#include <strings.h>
#include <algorithm>
extern "C" {
#include "qlibc.h"
}
#include "common/via_members.hpp"   // after the prototypes: container calls go through the member pointers in half of the cases
using namespace vf;
const char *vf_harness_name = "listtbl";

namespace {
struct Ent { std::string key, val; bool isstr; };

struct Opts { bool unique, ci, top, fwd; };

// the reference: an ordered multimap as a plain vector, first -> last
struct Model {
    Opts o; std::vector<Ent> v;
    bool match(const std::string &a, const std::string &b) const { return o.ci ? strcasecmp(a.c_str(), b.c_str()) == 0 : a == b; }
    size_t remove(const std::string &k) { size_t n = 0; for (size_t i = 0; i < v.size();) if (match(v[i].key, k)) { v.erase(v.begin() + (long)i); n++; } else i++; return n; }
    void put(const Ent &e, bool force_bottom = false) { if (o.unique) remove(e.key); if (o.top && !force_bottom) v.insert(v.begin(), e); else v.push_back(e); }
    // indexes of matches in lookup order (all entries when k == nullptr)
    std::vector<size_t> lookup(const std::string *k) const {
        std::vector<size_t> r;
        if (o.fwd) { for (size_t i = 0; i < v.size(); i++) if (!k || match(v[i].key, *k)) r.push_back(i); }
        else { for (size_t i = v.size(); i-- > 0;) if (!k || match(v[i].key, *k)) r.push_back(i); }
        return r;
    }
    void sort() { std::stable_sort(v.begin(), v.end(), [&](const Ent &a, const Ent &b) { return (o.ci ? strcasecmp(a.key.c_str(), b.key.c_str()) : strcmp(a.key.c_str(), b.key.c_str())) < 0; }); }
};

struct Run : ContBase {
    qlisttbl_t *t = nullptr;
    Model m;
    std::vector<std::string> universe;
    bool loadable_case = false;
    FILE *devnull = nullptr;
    std::string tmpfile;
    int nt = 0, removed_in_walk = 0, sort_moved_equal = 0, loads = 0;
    int nt_refused = 0, lookups_in_walk = 0, loads_plain_empty = 0, loads_no_final_newline = 0, loads_nothing_into_nonempty = 0;

    Run(Src &s_, Ctx &c_, bool scr, bool ret) : ContBase(s_, c_, scr, ret, "listtbl") {}
    ~Run() { if (t) qlisttbl_free(t); if (devnull) fclose(devnull); if (!tmpfile.empty()) unlink(tmpfile.c_str()); }

    int optbits(const Opts &o) { return (o.unique ? QLISTTBL_UNIQUE : 0) | (o.ci ? QLISTTBL_CASEINSENSITIVE : 0) | (o.top ? QLISTTBL_INSERTTOP : 0) | (o.fwd ? QLISTTBL_LOOKUPFORWARD : 0); }

    std::string gen_key() {
        static const char *fixed[] = {"key", "Key", "KEY", "kEy", "a", "A", "b", "B", "ab", "aB", "Ab", "z.1", "Z.1", "n_0", "N_0", "k-9"};
        if (s.chance(1, 10)) { const auto &tw = hash_twins(); const auto &p = tw[s.range(0, (long)tw.size() - 1)]; return s.boolean() ? p.first : p.second; }   // equal 32-bit hash, different bytes
        if (s.chance(3, 4)) return fixed[s.range(0, 15)];
        if (!loadable_case && s.chance(1, 4)) return "";
        size_t len = (size_t)s.range(1, 6); std::string r;
        if (s.chance(1, 8)) { static const size_t edge[] = {64, 128, 256, 512, 1024, 2048}; len = edge[s.range(0, 5)] + (size_t)s.range(0, 2) - 1; }   // long names around power-of-two sizes
        for (size_t i = 0; i < len; i++) r.push_back("abAB01._-xX"[s.range(0, 10)]);
        return r;
    }
    std::string gen_text(size_t maxlen) {
        size_t len = (size_t)s.range(0, (long)maxlen); std::string r;
        static const char alpha[] = "abcXYZ019 %=+&:|#,\t\"'\\/";
        bool wild = s.chance(1, 3);
        for (size_t i = 0; i < len; i++) r.push_back(wild ? (char)s.range(1, 255) : alpha[s.range(0, (long)sizeof(alpha) - 2)]);
        return r;
    }
    void check_size(const char *after) { size_t n = qlisttbl_size(t); if (n != m.v.size()) c.fail(FUNC, "listtbl:size", "size()=%zu but the model holds %zu entries after %s", n, m.v.size(), after); }

    // the whole table, first -> last, read through the public links
    void full_compare(qlisttbl_t *tb, const Model &mm, const char *when) {
        size_t i = 0;
        qlisttbl_obj_t *prev = nullptr;
        for (qlisttbl_obj_t *o = tb->first; o; prev = o, o = o->next, i++) {
            if (i >= mm.v.size()) c.fail(FUNC, "listtbl:order", "%s: table has more than the %zu expected entries", when, mm.v.size());
            if (o->prev != prev) c.fail(FUNC, "listtbl:links", "%s: entry %zu has a wrong back link", when, i);
            const Ent &e = mm.v[i];
            if (e.key != o->name || o->size != e.val.size() || memcmp(o->data, e.val.data(), o->size) != 0)
                c.fail(FUNC, "listtbl:order", "%s: entry %zu is (%s,%s), expected (%s,%s)", when, i, hexs(o->name, strlen(o->name)).c_str(), hexs(o->data, o->size, 12).c_str(), hexs(e.key).c_str(), hexs(e.val, 12).c_str());
        }
        if (i != mm.v.size()) c.fail(FUNC, "listtbl:order", "%s: table has %zu entries, expected %zu", when, i, mm.v.size());
        if (tb->last != prev) c.fail(FUNC, "listtbl:links", "%s: last pointer does not point at the last entry", when);
        if (qlisttbl_size(tb) != mm.v.size()) c.fail(FUNC, "listtbl:size", "%s: size()=%zu, expected %zu", when, qlisttbl_size(tb), mm.v.size());
    }

    void do_put(const std::string &k) {
        int api = loadable_case ? (int)s.pick({0, 4, 1, 2}) : (int)s.pick({4, 3, 1, 2});
        Buf *kb = Buf::cstr(k);
        Ent e; e.key = k; bool ok;
        errno = poison;
        if (api == 0) { std::string v = gen_val(false, 120); Buf vb(v); ok = qlisttbl_put(t, kb->c(), vb.p, vb.n); if (scribble) vb.scribble(); e.val = v; e.isstr = false; }
        else if (api == 1) { std::string v = gen_text(40); Buf *vs = Buf::cstr(v); ok = qlisttbl_putstr(t, kb->c(), vs->c()); if (scribble) vs->scribble(); delete vs; e.val = v + std::string(1, '\0'); e.isstr = true; }
        else if (api == 2) { long n = s.range(-99, 99); std::string v = s.chance(1, 8) ? gen_fmt_text(20, 1 + std::to_string(n).size()) : gen_text(20); Buf *vs = Buf::cstr(v); ok = qlisttbl_putstrf(t, kb->c(), "%ld:%s", n, vs->c()); if (scribble) vs->scribble(); delete vs; e.val = std::to_string(n) + ":" + v + std::string(1, '\0'); e.isstr = true; }
        else { int64_t n = s.pick({1, 1, 1, 4}) == 3 ? (int64_t)s.range(-100000, 100000) : (s.boolean() ? INT64_MAX : INT64_MIN); ok = qlisttbl_putint(t, kb->c(), n); char b[32]; snprintf(b, sizeof b, "%" PRId64, n); e.val = std::string(b) + std::string(1, '\0'); e.isstr = true; }
        if (scribble) kb->scribble();
        delete kb;
        size_t dups = m.lookup(&k).size();
        c.op("%s(%s,%s)%s", api == 0 ? "put" : api == 1 ? "putstr" : api == 2 ? "putstrf" : "putint", hexs(k, 10).c_str(), hexs(e.val, 10).c_str(), dups ? strf(" [%zu equal key(s) present]", dups).c_str() : "");
        seei(ok);
        if (!ok) c.fail(FUNC, "listtbl:put-failed", "put(%s) returned false, errno=%d", hexs(k).c_str(), errno);
        m.put(e);
    }
    // a put whose data pointer lies inside the table's own copy of a stored value (newmem=false)
    void do_put_alias(const std::string &k) {
        std::vector<size_t> hits = m.lookup(&k);
        if (hits.empty() || m.v[hits[0]].val.size() < 2) { do_put(k); return; }
        const Ent old = m.v[hits[0]];
        Buf *kb = Buf::cstr(k);
        size_t sz = 0; char *p = (char *)qlisttbl_get(t, kb->c(), &sz, false);
        if (!p || sz != old.val.size()) { delete kb; c.fail(FUNC, "listtbl:get-missing", "get(%s,newmem=false) before an aliasing put returned %s", hexs(k).c_str(), p ? "a wrong size" : "NULL"); }
        size_t off = (size_t)s.range(0, (long)sz - 1);
        Ent e; e.key = k; e.val = old.val.substr(off); e.isstr = old.isstr;
        errno = poison;
        bool ok = qlisttbl_put(t, kb->c(), p + off, sz - off);
        delete kb;
        c.op("put(%s, pointer %zu bytes into the stored value of the same key, %zu bytes) [%zu equal key(s) present]", hexs(k, 10).c_str(), off, sz - off, hits.size());
        if (!ok) c.fail(FUNC, "listtbl:put-failed", "put(%s) with data inside the table's own value buffer returned false, errno=%d", hexs(k).c_str(), errno);
        m.put(e);
    }
    // calls the library documents as refused (EINVAL): they must fail, say so, and change nothing -
    // the complete comparison with the model follows as after every operation
    void do_refused(const std::string &k) {
        int kind = (int)s.range(0, 4);
        Buf *kb = Buf::cstr(k); std::string v = gen_val(false, 20); Buf vb(v);
        size_t have = m.lookup(&k).size();
        errno = poison; bool ok; const char *what;
        switch (kind) {
            case 0: ok = qlisttbl_put(t, kb->c(), nullptr, vb.n); what = "put(key, NULL data, n)"; break;
            case 1: ok = qlisttbl_put(t, kb->c(), vb.p, 0); what = "put(key, data, size 0)"; break;
            case 2: ok = qlisttbl_putstr(t, kb->c(), nullptr); what = "putstr(key, NULL)"; break;
            case 3: ok = qlisttbl_put(t, nullptr, vb.p, vb.n); what = "put(NULL name, data, n)"; break;
            default: { size_t sz = 0; ok = qlisttbl_get(t, nullptr, &sz, s.boolean()) != nullptr; what = "get(NULL name)"; }
        }
        int e = errno;
        delete kb;
        c.op("refused call %s, key %s [%zu equal key(s) present]", what, hexs(k, 10).c_str(), have);
        if (ok) c.fail(FUNC, "listtbl:invalid-accepted", "%s succeeded, documented EINVAL", what);
        if (e != EINVAL) c.fail(FUNC, "listtbl:invalid-errno", "%s: errno=%d, documented EINVAL", what, e);
        if (have) nt_refused++;
    }
    void do_get(const std::string &k) {
        std::vector<size_t> hits = m.lookup(&k);
        int api = (int)s.pick({4, 2, 2});
        if (api == 2 && !hits.empty() && !m.v[hits[0]].isstr) api = 0;
        bool newmem = s.boolean();
        Buf *kb = Buf::cstr(k);
        size_t sz = 555555; void *p = nullptr; int64_t iv = 0;
        errno = poison;
        if (api == 0) p = qlisttbl_get(t, kb->c(), &sz, newmem);
        else if (api == 1) p = qlisttbl_getstr(t, kb->c(), newmem);
        else iv = qlisttbl_getint(t, kb->c());
        int e = errno;
        delete kb;
        c.op("%s(%s,newmem=%d) [%zu match(es)]", api == 0 ? "get" : api == 1 ? "getstr" : "getint", hexs(k, 10).c_str(), (int)newmem, hits.size());
        if (api == 2) { int64_t want = hits.empty() ? 0 : atoll(m.v[hits[0]].val.c_str()); seei((long)iv); if (iv != want) c.fail(FUNC, "listtbl:getint", "getint(%s)=%" PRId64 ", expected %" PRId64, hexs(k).c_str(), iv, want); return; }
        if (hits.empty()) {
            seei(p != nullptr);
            if (p) c.fail(FUNC, "listtbl:get-absent", "get(%s) returned data though no entry matches", hexs(k).c_str());
            if (e != ENOENT) c.fail(FUNC, "listtbl:get-errno", "get without a match: errno=%d, expected ENOENT", e);
            return;
        }
        const std::string &v = m.v[hits[0]].val;
        if (!p) c.fail(FUNC, "listtbl:get-missing", "get(%s) returned NULL though %zu entries match", hexs(k).c_str(), hits.size());
        if (api == 0 && sz != v.size()) c.fail(FUNC, "listtbl:get-first-match", "get(%s) returned %zu bytes, the first match in lookup direction has %zu", hexs(k).c_str(), sz, v.size());
        if (memcmp(p, v.data(), v.size()) != 0) c.fail(FUNC, "listtbl:get-first-match", "get(%s) returned %s, the first match in lookup direction holds %s", hexs(k).c_str(), hexs(p, v.size(), 12).c_str(), hexs(v, 12).c_str());
        see(p, v.size());
        if (newmem) give_back(p, v, "get(newmem)");
    }
    void do_getmulti(const std::string &k) {
        bool newmem = s.boolean();
        std::vector<size_t> hits = m.lookup(&k);
        Buf *kb = Buf::cstr(k);
        bool nocnt = s.chance(1, 6);                       // "numobjs ... (can be NULL)": the array is terminated by a type-0 element
        size_t n = 999999;
        errno = poison;
        qlisttbl_data_t *objs = qlisttbl_getmulti(t, kb->c(), newmem, nocnt ? nullptr : &n);
        int e = errno;
        if (nocnt) { n = hits.size(); c.tag("null_count_outparam"); }
        delete kb;
        c.op("getmulti(%s,newmem=%d) [%zu match(es)]", hexs(k, 10).c_str(), (int)newmem, hits.size());
        struct G { qlisttbl_data_t *o; ~G() { if (o) qlisttbl_freemulti(o); } } g{objs};
        if (n != hits.size()) c.fail(FUNC, "listtbl:getmulti-count", "getmulti(%s) reports %zu matches, expected %zu", hexs(k).c_str(), n, hits.size());
        if (hits.empty()) { if (objs) c.fail(FUNC, "listtbl:getmulti-absent", "getmulti without a match returned an array"); if (e != ENOENT) c.fail(FUNC, "listtbl:getmulti-errno", "getmulti without a match: errno=%d", e); return; }
        if (!objs) c.fail(FUNC, "listtbl:getmulti-null", "getmulti(%s) returned NULL though %zu entries match", hexs(k).c_str(), hits.size());
        for (size_t i = 0; i < hits.size(); i++) {
            const std::string &v = m.v[hits[i]].val;
            if (objs[i].type != (newmem ? 2 : 1)) c.fail(FUNC, "listtbl:getmulti-type", "getmulti element %zu has type %d", i, (int)objs[i].type);
            if (objs[i].size != v.size() || memcmp(objs[i].data, v.data(), v.size()) != 0) c.fail(FUNC, "listtbl:getmulti-order", "getmulti(%s) element %zu is %s, expected %s (all matches in lookup order)", hexs(k).c_str(), i, hexs(objs[i].data, objs[i].size, 12).c_str(), hexs(v, 12).c_str());
            see(objs[i].data, objs[i].size);
            if (newmem && !vf_ledger_has(objs[i].data)) c.fail(COPY, "listtbl:copy-not-own-allocation", "getmulti(newmem) element %zu is not an allocation of its own", i);
        }
        if (objs[hits.size()].type != 0) c.fail(FUNC, "listtbl:getmulti-terminator", "getmulti array is not terminated by a type-0 element");
    }
    void do_remove(const std::string &k) {
        size_t want = m.lookup(&k).size();
        Buf *kb = Buf::cstr(k);
        size_t n = qlisttbl_remove(t, kb->c());
        if (scribble) kb->scribble();
        delete kb;
        c.op("remove(%s) [%zu match(es)]", hexs(k, 10).c_str(), want);
        seei((long)n);
        if (n != want) c.fail(FUNC, "listtbl:remove-count", "remove(%s) returned %zu, %zu entries match", hexs(k).c_str(), n, want);
        m.remove(k);
    }
    void do_walk() {
        bool filtered = s.boolean();
        std::string k = filtered ? gen_key() : std::string();
        bool newmem = s.boolean();
        int rmmode = (int)s.pick({4, 1, 1, 1, 1});    // none, first, last, middle, every other
        std::vector<size_t> hits = m.lookup(filtered ? &k : nullptr);
        c.op("walk(%s,newmem=%d,remove=%s) [%zu entr%s]", filtered ? hexs(k, 10).c_str() : "all", (int)newmem, rmmode == 0 ? "none" : rmmode == 1 ? "first" : rmmode == 2 ? "last" : rmmode == 3 ? "middle" : "every other", hits.size(), hits.size() == 1 ? "y" : "ies");
        Buf *kb = filtered ? Buf::cstr(k) : nullptr;
        struct G { Buf *b; ~G() { delete b; } } g{kb};
        qlisttbl_obj_t o; memset(&o, 0, sizeof o);
        size_t step = 0;
        std::vector<size_t> toremove;
        // a third of the walks without removals: read-only calls on other keys between the steps
        bool lookups = rmmode == 0 && s.chance(1, 3);
        errno = poison;
        while (qlisttbl_getnext(t, &o, kb ? kb->c() : nullptr, newmem)) {
            if (lookups && s.chance(1, 2)) {
                std::string gk = gen_key(); Buf *gb = Buf::cstr(gk);
                std::vector<size_t> gh = m.lookup(&gk);
                size_t gsz = 0; void *p = qlisttbl_get(t, gb->c(), &gsz, false);
                delete gb;
                if ((p != nullptr) != !gh.empty()) c.fail(FUNC, gh.empty() ? "listtbl:get-absent" : "listtbl:get-missing", "get(%s) between two steps of a walk: wrong presence", hexs(gk).c_str());
                (void)qlisttbl_size(t); lookups_in_walk++;
            }
            if (step >= hits.size()) c.fail(FUNC, "listtbl:walk-extra", "walk returned more than the %zu expected entries", hits.size());
            const Ent &e = m.v[hits[step]];
            if (!o.name || e.key != o.name || o.size != e.val.size() || memcmp(o.data, e.val.data(), o.size) != 0)
                c.fail(FUNC, "listtbl:walk-order", "walk step %zu returned (%s,%s), expected (%s,%s) (matches in lookup order)", step, o.name ? hexs(o.name, strlen(o.name)).c_str() : "NULL", hexs(o.data, o.size, 12).c_str(), hexs(e.key).c_str(), hexs(e.val, 12).c_str());
            see(o.data, o.size);
            bool rm = rmmode == 1 ? step == 0 : rmmode == 2 ? step + 1 == hits.size() : rmmode == 3 ? (hits.size() >= 3 && step == hits.size() / 2) : rmmode == 4 ? (step % 2 == 0) : false;
            if (rm) {
                bool ok = qlisttbl_removeobj(t, &o);
                if (!ok) c.fail(FUNC, "listtbl:removeobj", "removeobj of the entry just returned by getnext failed (errno=%d)", errno);
                toremove.push_back(hits[step]); removed_in_walk++;
                if (m.lookup(&e.key).size() >= 2) nt++;
            }
            if (newmem) { give_back(o.name, e.key + std::string(1, '\0'), "getnext(newmem).name"); give_back(o.data, e.val, "getnext(newmem).data"); }
            step++;
        }
        int e = errno;
        if (step != hits.size()) c.fail(FUNC, "listtbl:walk-missing", "walk returned %zu of %zu expected entries", step, hits.size());
        if (e != ENOENT) c.fail(FUNC, "listtbl:walk-errno", "end of walk: errno=%d, expected ENOENT", e);
        std::sort(toremove.begin(), toremove.end());
        for (size_t i = toremove.size(); i-- > 0;) m.v.erase(m.v.begin() + (long)toremove[i]);
    }
    void do_sort() {
        Model before = m;
        qlisttbl_sort(t);
        m.sort();
        bool moved = false;
        for (size_t i = 0; i < m.v.size(); i++) if (before.v[i].key != m.v[i].key || before.v[i].val != m.v[i].val) moved = true;
        bool hasdup = false;
        for (size_t i = 1; i < m.v.size(); i++) if (m.match(m.v[i].key, m.v[i - 1].key) && m.v[i].val != m.v[i - 1].val) hasdup = true;
        c.op("sort()%s", moved && hasdup ? " [moves entries, equal keys present]" : "");
        if (moved && hasdup) { sort_moved_equal++; nt++; }
    }
    void do_saveload() {
        static const char seps[] = "=:|,\t ";                   // incl. the blank separators (tab, space)
        char sep = seps[s.range(0, 5)];
        bool unsafe = false, has_empty = false;                   // an empty string needs no encoding ("all data are string ... and has no new line")
        for (auto &e : m.v) { std::string v = e.val.substr(0, e.val.size() - 1); if (v.empty()) { has_empty = true; continue; } if (v.find_first_of("\r\n") != std::string::npos || isspace((unsigned char)v.front()) || isspace((unsigned char)v.back()) || v.find('\0') != std::string::npos) unsafe = true; for (unsigned char ch : v) if (ch >= 0x80 || ch < 0x20) unsafe = true; }
        bool encode = unsafe || s.boolean();
        bool sameopts = s.boolean();
        if (tmpfile.empty()) { const char *td = getenv("TMPDIR"); tmpfile = std::string(td ? td : "/dev/shm") + "/vf-listtbl-" + std::to_string(getpid()) + ".txt"; }
        bool ok = qlisttbl_save(t, tmpfile.c_str(), sep, encode);
        c.op("save(sep='%c',encode=%d) + load into a fresh %s table [%zu entries]", sep, (int)encode, sameopts ? "same-options" : "default", m.v.size());
        if (!ok) c.fail(FUNC, "listtbl:save", "save() returned false (errno=%d)", errno);
        Model tm; tm.o = sameopts ? m.o : Opts{false, false, false, false};
        qlisttbl_t *t2 = qlisttbl(optbits(tm.o));
        if (!t2) c.fail(FUNC, "listtbl:ctor", "qlisttbl() returned NULL");
        struct G { qlisttbl_t *x; ~G() { qlisttbl_free(x); } } g{t2};
        ssize_t n = qlisttbl_load(t2, tmpfile.c_str(), sep, encode);
        for (auto &e : m.v) tm.put(e, true);          // documented: always appended at the bottom
        seei((long)n);
        full_compare(t2, tm, "table loaded from the saved file");
        if (n != (ssize_t)m.v.size()) c.fail(FUNC, "listtbl:load-count", "load() returned %zd, the file holds %zu entries", n, m.v.size());
        loads++;
        if (has_empty && !encode) loads_plain_empty++;
    }

    // save/load of a table whose file is far longer than any I/O block (4, 8, 64 KiB): N entries whose lines all have the same
    // power-of-two length L (so that line ends fall on every block boundary) or lengths 6..40; every entry must come back, in order
    void do_bulk_saveload(int N, int L, bool encode) {
        qlisttbl_t *tb = qlisttbl(0);
        if (!tb) c.fail(FUNC, "listtbl:ctor", "qlisttbl() returned NULL");
        struct G { qlisttbl_t *x; ~G() { if (x) qlisttbl_free(x); } } g1{tb};
        std::vector<std::pair<std::string, std::string>> want;
        uint32_t h = 2166136261u ^ (uint32_t)N;
        for (int i = 0; i < N; i++) {
            char name[16]; snprintf(name, sizeof name, "k%04d", i);                  // 5 characters
            h = (h ^ (uint32_t)i) * 16777619u;
            size_t vlen = L ? (size_t)L - 7 : 1 + (h >> 8) % 34;                       // line = name + separator + value + newline
            std::string v; for (size_t j = 0; j < vlen; j++) v.push_back((char)('a' + (h >> (j % 24)) % 26));
            if (!qlisttbl_putstr(tb, name, v.c_str())) c.fail(FUNC, "listtbl:put-result", "putstr returned false while building a %d-entry table", N);
            want.push_back({name, v});
        }
        if (tmpfile.empty()) { const char *td = getenv("TMPDIR"); tmpfile = std::string(td ? td : "/dev/shm") + "/vf-listtbl-" + std::to_string(getpid()) + ".txt"; }
        bool ok = qlisttbl_save(tb, tmpfile.c_str(), '=', encode);
        c.op("bulk save(encode=%d) + load: %d entries, %s", (int)encode, N, L ? strf("every line %d bytes", L).c_str() : "lines of 8..41 bytes");
        if (!ok) c.fail(FUNC, "listtbl:save", "save() of a %d-entry table returned false (errno=%d)", N, errno);
        qlisttbl_t *t2 = qlisttbl(QLISTTBL_LOOKUPFORWARD);        // walks follow the lookup direction: forward = insertion order
        if (!t2) c.fail(FUNC, "listtbl:ctor", "qlisttbl() returned NULL");
        struct G2 { qlisttbl_t *x; ~G2() { if (x) qlisttbl_free(x); } } g2{t2};
        ssize_t n = qlisttbl_load(t2, tmpfile.c_str(), '=', encode);
        if (n != (ssize_t)N) c.fail(FUNC, "listtbl:load-count", "load() returned %zd, the saved table has %d entries", n, N);
        if (qlisttbl_size(t2) != (size_t)N) c.fail(FUNC, "listtbl:size", "the loaded table has %zu entries, %d were saved", qlisttbl_size(t2), N);
        qlisttbl_obj_t o; memset(&o, 0, sizeof o); size_t i = 0;
        while (qlisttbl_getnext(t2, &o, nullptr, false)) {
            if (i >= want.size()) c.fail(FUNC, "listtbl:walk-extra", "the loaded table has more than %d entries", N);
            if (want[i].first != o.name || o.size != want[i].second.size() + 1 || memcmp(o.data, want[i].second.c_str(), o.size) != 0)
                c.fail(FUNC, "listtbl:load-entry", "entry %zu of the loaded table is %s=%s, saved was %s=%s", i, hexs(o.name, strlen(o.name)).c_str(), hexs(o.data, o.size, 16).c_str(), want[i].first.c_str(), hexs(want[i].second, 16).c_str());
            i++;
        }
        if (i != want.size()) c.fail(FUNC, "listtbl:walk-missing", "the loaded table yields %zu of %d entries", i, N);
        c.tag("case_with_bulk_save_load"); loads++;
    }

    // load() from a file somebody wrote by hand: padding blanks, blank lines, # comments, and a last
    // line with or without its newline
    void do_load_text() {
        static const char seps[] = "=:|,";
        char sep = seps[s.range(0, 3)];
        std::string doc; std::vector<Ent> want;
        int nl = (int)s.range(0, 8);
        auto padding = [&]() { static const char *pd[] = {"", "", " ", "\t", "  "}; return std::string(pd[s.range(0, 4)]); };
        for (int i = 0; i < nl; i++) {
            int k = (int)s.pick({6, 1, 1});
            if (k == 1) doc += padding();
            else if (k == 2) doc += padding() + "# " + gen_key() + std::string(1, sep) + "x";
            else {
                std::string key; do { key = gen_key(); } while (key.empty());
                std::string v; size_t vl = (size_t)s.range(0, 12); for (size_t j = 0; j < vl; j++) v.push_back("abcXYZ019 %=+&:|,"[s.range(0, 16)]);
                while (!v.empty() && v.front() == ' ') v.erase(v.begin()); while (!v.empty() && v.back() == ' ') v.pop_back();
                doc += padding() + key + padding() + std::string(1, sep) + padding() + v + padding();
                Ent e; e.key = key; e.val = v + std::string(1, '\0'); e.isstr = true; want.push_back(e);
            }
            if (i + 1 < nl || s.chance(2, 3)) doc += "\n";
        }
        bool lastnl = doc.empty() || doc.back() == '\n';
        // pad the file image to a malloc-chunk-filling size now and then (size+1 = 24, 40, 56, ...): what lies behind it is then another chunk's header
        if (s.chance(1, 3) && !doc.empty() && !lastnl) { size_t want_sz = ((doc.size() + 1 + 15 - 8) / 16) * 16 + 8; while (doc.size() + 1 < want_sz) doc.insert(doc.begin(), '\n'); }
        if (tmpfile.empty()) { const char *td = getenv("TMPDIR"); tmpfile = std::string(td ? td : "/dev/shm") + "/vf-listtbl-" + std::to_string(getpid()) + ".txt"; }
        { FILE *f = fopen(tmpfile.c_str(), "wb"); if (!f) throw CaseStop{"cannot write temp file"}; if (!doc.empty()) fwrite(doc.data(), 1, doc.size(), f); fclose(f); }
        // half of the loads go into the live table (whatever it holds - load appends), the others into a fresh one
        bool live = s.boolean();
        bool sameopts = s.boolean();
        Model tm; tm.o = sameopts ? m.o : Opts{false, false, false, false};
        qlisttbl_t *t2 = live ? t : qlisttbl(optbits(tm.o));
        if (!t2) c.fail(FUNC, "listtbl:ctor", "qlisttbl() returned NULL");
        struct G { qlisttbl_t *x; ~G() { if (x) qlisttbl_free(x); } } g{live ? nullptr : t2};
        errno = poison;
        ssize_t n = qlisttbl_load(t2, tmpfile.c_str(), sep, false);
        c.op("load(sep='%c') of a hand-written file into %s: %zu entries in %d line(s), last line %s a newline: %s", sep, live ? strf("the live table (%zu entries)", m.v.size()).c_str() : "a fresh table", want.size(), nl, lastnl ? "ends with" : "WITHOUT", hexs(doc, 120).c_str());
        seei((long)n);
        if (doc.empty()) { if (n > 0) c.fail(FUNC, "listtbl:load-count", "load() of an empty file returned %zd", n); return; }   // (an empty file may be reported as 0 or as failure; the caller's comparison covers the live table)
        if (live) { for (auto &e : want) m.put(e, true); if (want.empty() && !m.v.empty()) loads_nothing_into_nonempty++; if (n != (ssize_t)want.size()) c.fail(FUNC, "listtbl:load-count", "load() returned %zd, the file holds %zu entries", n, want.size()); loads++; if (!lastnl) loads_no_final_newline++; return; }   // compared by the caller as after every operation
        for (auto &e : want) tm.put(e, true);
        full_compare(t2, tm, "table loaded from a hand-written file");
        if (n != (ssize_t)want.size()) c.fail(FUNC, "listtbl:load-count", "load() returned %zd, the file holds %zu entries", n, want.size());
        loads++; if (!lastnl) loads_no_final_newline++;
    }

    void run() {
        draw_poison();
        int ob = (int)s.range(0, 15);
        m.o = Opts{(ob & 1) != 0, (ob & 2) != 0, (ob & 4) != 0, (ob & 8) != 0};
        loadable_case = s.chance(1, 3);
        c.op("listtbl(%s%s%s%s%s)%s", m.o.unique ? "UNIQUE " : "", m.o.ci ? "CASEINSENSITIVE " : "", m.o.top ? "INSERTTOP " : "", m.o.fwd ? "LOOKUPFORWARD" : "", ob == 0 ? "default" : "", loadable_case ? " [save/load case: string values, file-safe keys]" : "");
        vf_ledger_on = 1;
        int lopt = s.chance(1, 4) ? QLISTTBL_THREADSAFE : 0;   // a thread-safe table used by one thread behaves like a plain one
        if (lopt) c.tag("threadsafe_option_single_thread");
        t = qlisttbl(optbits(m.o) | lopt);
        if (!t) c.fail(FUNC, "listtbl:ctor", "qlisttbl() returned NULL");
        int maxops = c.tier ? 1500 : 300, ops = 0;
        // one case in twelve ends with a bulk save/load whose file is several I/O blocks long (drawn here, before the history uses up the bytes)
        bool bulk = s.chance(1, 12); int bulkN = (int)s.range(300, 1500); int bulkL = (int)s.pick({3, 1}) == 0 ? 8 << s.range(0, 3) : 0; bool bulkEnc = s.boolean();
        while (!s.exhausted() && ops++ < maxops) {
            int o = (int)s.pick({30, 10, 8, 8, 10, 2, 5, 1, 1, loadable_case ? 6 : 0, 2, 2, 3, loadable_case ? 0 : 2, 2});
            const char *what = "op";
            switch (o) {
                case 0: do_put(gen_key()); what = "put"; break;
                case 1: do_get(gen_key()); what = "get"; break;
                case 2: do_getmulti(gen_key()); what = "getmulti"; break;
                case 3: do_remove(gen_key()); what = "remove"; break;
                case 4: do_walk(); what = "walk"; break;
                case 5: c.op("size()"); what = "size"; break;
                case 6: do_sort(); what = "sort"; break;
                case 7: qlisttbl_clear(t); c.op("clear()"); note_outlived(); m.v.clear(); verify_kept(false); what = "clear"; break;
                case 8: { if (!devnull) devnull = fopen("/dev/null", "w"); bool ok = qlisttbl_debug(t, devnull); c.op("debug()"); if (!ok) c.fail(FUNC, "listtbl:debug", "debug() returned false"); what = "debug"; break; }
                case 9: do_saveload(); what = "save/load"; break;
                case 12: do_refused(gen_key()); what = "refused call"; break;
                case 13: do_put_alias(gen_key()); what = "aliasing put"; break;
                case 14: do_load_text(); what = "load of a hand-written file"; break;
                case 11: { // burst: many entries under one key (getmulti array growth boundaries 10, 20, 40)
                    std::string k = gen_key(); long n = s.pick({1, 1, 1, 1}) == 0 ? 10 : s.pick({1, 1}) == 0 ? s.range(8, 12) : s.range(18, 42);
                    size_t have = m.lookup(&k).size(); if (!m.o.unique && have < (size_t)n && s.boolean()) n -= (long)have;
                    for (long i = 0; i < n; i++) do_put(k);
                    do_getmulti(k); what = "burst"; break; }
                default: c.op("compare-all"); what = "compare";
            }
            check_size(what);
            full_compare(t, m, what);
            c.check_san(what);
        }
        if (bulk) do_bulk_saveload(bulkN, bulkL, bulkEnc);
        note_outlived(); verify_kept(false);
        bool nonempty = !m.v.empty();
        qlisttbl_free(t); t = nullptr;
        c.op("free()");
        verify_kept(true);
        leak_verdict("qlisttbl_free");
        c.tag(strf("options_%02d", ob).c_str());
        if (loads) c.tag("case_with_save_load");
        if (loads_plain_empty) c.tag("case_with_unencoded_save_load_of_an_empty_value");
        if (loads_no_final_newline) c.tag("case_with_load_of_a_file_without_final_newline");
        if (loads_nothing_into_nonempty) c.tag("case_with_load_of_an_entryless_file_into_a_nonempty_table");
        if (nt_refused) c.tag("case_with_refused_call_on_present_key");
        if (lookups_in_walk) c.tag("case_with_lookups_inside_a_walk");
        if (removed_in_walk) c.tag("case_with_removal_in_walk"); if (sort_moved_equal) c.tag("case_with_sort_moving_equal_keys");
        if (c.mode == "C08") c.nontrivial = nt > 0;
        else if (c.mode == "C11") c.nontrivial = removed_in_walk > 0 && nonempty;
        else if (c.mode == "C12") c.nontrivial = copies_outlived > 0;
    }
};
}  // namespace

bool vf_configure(Ctx &c) { return configure_container(c, "C08", FUNC); }
void run_case(Src &s, Ctx &c) { run_modes<Run>(s, c, "listtbl"); }
