// h_hashtbl.cpp - qhashtbl harness.  Modes: C05 (exact map for every range), C11, C12.
#include "common/cont.hpp"
#include <cerrno>
#include <cinttypes>
extern "C" {
#include "qlibc.h"
}
#include "common/via_members.hpp"   // after the prototypes: container calls go through the member pointers in half of the cases
using namespace vf;
const char *vf_harness_name = "hashtbl";

namespace {
struct Ent { std::string val; bool isstr; };

struct Run : ContBase {
    qhashtbl_t *t = nullptr;
    std::map<std::string, Ent> m;
    std::vector<std::string> universe;
    size_t range = 0;
    FILE *devnull = nullptr;
    int nt_chain = 0;
    int walks_with_lookups = 0; bool walked_after = false; int pending_nt = 0;
    int removed_inner = 0;

    Run(Src &s_, Ctx &c_, bool scr, bool ret) : ContBase(s_, c_, scr, ret, "hashtbl") {}
    ~Run() { if (t) qhashtbl_free(t); if (devnull) fclose(devnull); }

    std::string gen_key() {
        if (s.chance(1, 8)) { const auto &tw = hash_twins(); const auto &p = tw[s.range(0, (long)tw.size() - 1)]; return s.boolean() ? p.first : p.second; }   // equal 32-bit hash, different bytes
        int k = s.pick({6, 2, 1, 1});
        std::string r;
        if (k == 3) return r;                                   // empty key
        size_t len = k == 0 ? (size_t)s.range(1, 4) : k == 1 ? (size_t)s.range(5, 24) : (size_t)s.range(25, 200);
        if (k == 2 && s.chance(1, 4)) { static const size_t edge[] = {128, 256, 512, 1024}; len = edge[s.range(0, 3)] + (size_t)s.range(0, 2) - 1; }   // long keys around power-of-two sizes
        for (size_t i = 0; i < len; i++) { int ch = s.chance(1, 6) ? (int)s.range(0x80, 0xff) : (int)"abcXYZ019_-"[s.range(0, 10)]; r.push_back((char)ch); }
        return r;
    }
    // position of key in its chain (0 = head) and chain length, read from the public fields
    bool chain_pos(const std::string &k, size_t *pos, size_t *len) {
        size_t R = t->range;
        for (size_t i = 0; i < R; i++) {
            size_t n = 0, at = (size_t)-1;
            for (qhashtbl_obj_t *o = t->slots[i]; o && n < 100000; o = o->next, n++) if (k == o->name) at = n;
            if (at != (size_t)-1) { *pos = at; *len = n; return true; }
        }
        return false;
    }
    void check_size(const char *after) {
        size_t n = qhashtbl_size(t);
        if (n != m.size()) c.fail(FUNC, "hashtbl:size", "size()=%zu but the model holds %zu keys after %s", n, m.size(), after);
    }
    void do_put(const std::string &k) {
        int api = (int)s.pick({4, 3, 1, 2});       // put putstr putstrf putint
        bool present = m.count(k) > 0;
        size_t pos = 0, len = 0;
        if (present && chain_pos(k, &pos, &len) && len >= 3 && pos > 0) pending_nt++;
        Buf *kb = Buf::cstr(k);
        bool ok; Ent e;
        errno = poison;
        if (api == 0) { std::string v = gen_val(false); Buf vb(v); ok = qhashtbl_put(t, kb->c(), vb.p, vb.n); if (scribble) vb.scribble(); e = Ent{v, false}; }
        else if (api == 1) { std::string v = gen_val(true); Buf *vs = Buf::cstr(v); ok = qhashtbl_putstr(t, kb->c(), vs->c()); if (scribble) vs->scribble(); delete vs; e = Ent{v + std::string(1, '\0'), true}; }
        else if (api == 2) { long n = s.range(-1000, 1000); std::string v = gen_fmt_text(40, 1 + std::to_string(n).size()); Buf *vs = Buf::cstr(v); ok = qhashtbl_putstrf(t, kb->c(), "%s/%ld", vs->c(), n); if (scribble) vs->scribble(); delete vs; e = Ent{v + "/" + std::to_string(n) + std::string(1, '\0'), true}; }
        else {
            int64_t n; int kk = (int)s.pick({2, 1, 1, 4});
            n = kk == 0 ? 0 : kk == 1 ? INT64_MAX : kk == 2 ? INT64_MIN : (int64_t)((uint64_t)s.range(0, 0xffffffffll) * 2654435761ull * (uint64_t)s.range(1, 0xffff));
            ok = qhashtbl_putint(t, kb->c(), n);
            char b[32]; snprintf(b, sizeof b, "%" PRId64, n);
            e = Ent{std::string(b) + std::string(1, '\0'), true};
        }
        if (scribble) kb->scribble();
        delete kb;
        c.op("%s(%s,%s)%s", api == 0 ? "put" : api == 1 ? "putstr" : api == 2 ? "putstrf" : "putint", hexs(k, 12).c_str(), hexs(e.val, 8).c_str(), present ? " [replace]" : "");
        seei(ok);
        if (!ok) c.fail(FUNC, "hashtbl:put-failed", "put(%s) returned false, errno=%d", hexs(k).c_str(), errno);
        m[k] = e;
    }
    bool burst_case = false; size_t burst_ctr = 0, U = 0;
    void do_burst() {
        size_t k = (size_t)s.range(50, 500), base = burst_ctr; burst_ctr += k;
        c.op("burst: putstr of %zu fresh keys n=%zu", k, m.size());
        for (size_t i = 0; i < k; i++) {
            std::string key = "burst" + std::to_string(base + i), val = "v" + std::to_string((base + i) * 7919u);
            Buf *kb = Buf::cstr(key), *vb = Buf::cstr(val);
            errno = poison;
            bool ok = qhashtbl_putstr(t, kb->c(), vb->c());
            delete kb; delete vb;
            if (!ok) c.fail(FUNC, "hashtbl:put-failed", "put number %zu of a burst returned false, errno=%d", i + 1, errno);
            m[key] = Ent{val + std::string(1, '\0'), true};
            if (universe.size() < 4000) universe.push_back(key);     // later gets / removes / replacements reach the burst keys too
        }
        U = universe.size();
    }
    // a put whose data pointer lies inside the table's own copy of a stored value (obtained with
    // newmem=false), under the same key or another one: the stored bytes become that suffix
    void do_put_alias(const std::string &k, const std::string &other) {
        auto it = m.find(k);
        if (it == m.end() || it->second.val.size() < 2) { do_put(k); return; }
        Buf *kb = Buf::cstr(k);
        size_t sz = 0; char *p = (char *)qhashtbl_get(t, kb->c(), &sz, false);
        if (!p || sz != it->second.val.size()) { delete kb; c.fail(FUNC, "hashtbl:get-missing", "get(%s,newmem=false) before an aliasing put returned %s", hexs(k).c_str(), p ? "a wrong size" : "NULL"); }
        size_t off = (size_t)s.range(0, (long)sz - 1);
        bool same = s.chance(2, 3);
        const std::string &tk = same ? k : other;
        Buf *tb = Buf::cstr(tk);
        Ent e{it->second.val.substr(off), it->second.isstr};
        errno = poison;
        bool ok = qhashtbl_put(t, tb->c(), p + off, sz - off);
        delete kb; delete tb;
        c.op("put(%s, pointer %zu bytes into the stored value of %s, %zu bytes)", hexs(tk, 12).c_str(), off, same ? "the same key" : hexs(k, 12).c_str(), sz - off);
        if (!ok) c.fail(FUNC, "hashtbl:put-failed", "put(%s) with data inside the table's own value buffer returned false, errno=%d", hexs(tk).c_str(), errno);
        m[tk] = e;
        full_compare("aliasing put");
    }
    // calls the library documents as refused (EINVAL): they must fail, say so, and change nothing
    void do_refused(const std::string &k) {
        int kind = (int)s.range(0, 5);
        Buf *kb = Buf::cstr(k); std::string v = gen_val(false, 20); Buf vb(v);
        errno = poison; bool ok; const char *what;
        switch (kind) {
            case 0: ok = qhashtbl_put(t, kb->c(), nullptr, vb.n); what = "put(key, NULL data, n)"; break;
            case 1: ok = qhashtbl_putstr(t, kb->c(), nullptr); what = "putstr(key, NULL)"; break;
            case 2: ok = qhashtbl_put(t, nullptr, vb.p, vb.n); what = "put(NULL name, data, n)"; break;
            case 3: { size_t sz = 0; ok = qhashtbl_get(t, nullptr, &sz, s.boolean()) != nullptr; what = "get(NULL name)"; break; }
            case 4: ok = qhashtbl_remove(t, nullptr); what = "remove(NULL name)"; break;
            default: ok = qhashtbl_getnext(t, nullptr, s.boolean()); what = "getnext(NULL obj)";
        }
        int e = errno;
        delete kb;
        c.op("refused call %s, key %s [%s]", what, hexs(k, 12).c_str(), m.count(k) ? "present" : "absent");
        if (ok) c.fail(FUNC, "hashtbl:invalid-accepted", "%s succeeded, documented EINVAL", what);
        if (e != EINVAL) c.fail(FUNC, "hashtbl:invalid-errno", "%s: errno=%d, documented EINVAL", what, e);
        full_compare("refused call");
    }
    void do_get(const std::string &k) {
        auto it = m.find(k);
        int api = (int)s.pick({4, 2, 2});          // get getstr getint
        if (api == 2 && it != m.end() && !it->second.isstr) api = 0;
        bool newmem = s.boolean();
        Buf *kb = Buf::cstr(k);
        bool nosz = api == 0 && s.chance(1, 8);            // the size out-parameter is optional
        size_t sz = 424242; void *p = nullptr; int64_t iv = 0;
        if (nosz) { if (it != m.end()) sz = it->second.val.size(); c.tag("null_size_outparam"); }
        errno = poison;
        if (api == 0) p = qhashtbl_get(t, kb->c(), nosz ? nullptr : &sz, newmem);
        else if (api == 1) p = qhashtbl_getstr(t, kb->c(), newmem);
        else iv = qhashtbl_getint(t, kb->c());
        int e = errno;
        delete kb;
        c.op("%s(%s,newmem=%d)", api == 0 ? "get" : api == 1 ? "getstr" : "getint", hexs(k, 12).c_str(), (int)newmem);
        if (api == 2) {
            int64_t want = it == m.end() ? 0 : atoll(it->second.val.c_str());
            seei((long)iv);
            if (iv != want) c.fail(FUNC, "hashtbl:getint", "getint(%s)=%" PRId64 ", expected %" PRId64, hexs(k).c_str(), iv, want);
            return;
        }
        if (it == m.end()) {
            seei(p != nullptr);
            if (p) c.fail(FUNC, "hashtbl:get-absent", "get(%s) returned data for an absent key", hexs(k).c_str());
            if (e != ENOENT) c.fail(FUNC, "hashtbl:get-errno", "get of absent key: errno=%d, expected ENOENT", e);
            return;
        }
        const std::string &v = it->second.val;
        if (!p) c.fail(FUNC, "hashtbl:get-missing", "get(%s) returned NULL but the key is present", hexs(k).c_str());
        if (api == 0 && sz != v.size()) c.fail(FUNC, "hashtbl:get-size", "get(%s) size %zu, expected %zu", hexs(k).c_str(), sz, v.size());
        if (memcmp(p, v.data(), v.size()) != 0) c.fail(FUNC, "hashtbl:get-bytes", "get(%s) returned other bytes than last put (%s vs %s)", hexs(k).c_str(), hexs(p, v.size()).c_str(), hexs(v).c_str());
        see(p, v.size());
        if (newmem) give_back(p, v, "get(newmem)");
    }
    void do_remove(const std::string &k) {
        bool present = m.count(k) > 0;
        size_t pos = 0, len = 0;
        bool inner = present && chain_pos(k, &pos, &len) && len >= 3 && pos > 0;
        Buf *kb = Buf::cstr(k);
        errno = poison;
        bool ok = qhashtbl_remove(t, kb->c());
        int e = errno;
        if (scribble) kb->scribble();
        delete kb;
        c.op("remove(%s)%s", hexs(k, 12).c_str(), present ? (inner ? strf(" [present, pos %zu of chain %zu]", pos, len).c_str() : " [present]") : " [absent]");
        seei(ok);
        if (ok != present) c.fail(FUNC, "hashtbl:remove-result", "remove(%s) returned %d but the key was %s", hexs(k).c_str(), (int)ok, present ? "present" : "absent");
        if (!present && e != ENOENT) c.fail(FUNC, "hashtbl:remove-errno", "remove of absent key: errno=%d, expected ENOENT", e);
        if (present) { m.erase(k); if (inner) { pending_nt++; removed_inner++; } }
    }
    void do_walk() {
        bool newmem = s.boolean();
        c.op("walk(newmem=%d) n=%zu", (int)newmem, m.size());
        qhashtbl_obj_t o; memset(&o, 0, sizeof o);
        std::map<std::string, int> seen;
        size_t steps = 0;
        // a third of the walks: read-only calls (get / getstr / size) on other keys between the steps -
        // the table stays unmodified, so the walk must not notice
        bool lookups = s.chance(1, 3); size_t nlook = 0;
        errno = poison;
        while (qhashtbl_getnext(t, &o, newmem)) {
            if (lookups && s.chance(2, 3)) {
                const std::string &gk = universe[s.range(0, (long)universe.size() - 1)];
                size_t sz = 0; void *p = qhashtbl_get(t, gk.c_str(), &sz, false);
                auto gi = m.find(gk);
                if ((p != nullptr) != (gi != m.end()) || (p && (sz != gi->second.val.size() || memcmp(p, gi->second.val.data(), sz) != 0))) c.fail(FUNC, "hashtbl:get-bytes", "get(%s) between two steps of a walk returned the wrong result", hexs(gk).c_str());
                (void)qhashtbl_size(t); nlook++;
            }
            if (++steps > m.size() + 8) c.fail(FUNC, "hashtbl:walk-endless", "walk returned more than %zu entries for %zu keys", m.size() + 8, m.size());
            if (!o.name) c.fail(FUNC, "hashtbl:walk-null", "walk returned an entry without a name");
            std::string k = o.name;
            auto it = m.find(k);
            if (it == m.end()) c.fail(FUNC, "hashtbl:walk-unknown", "walk returned a key that is not stored: %s", hexs(k).c_str());
            if (++seen[k] > 1) c.fail(FUNC, "hashtbl:walk-dup", "walk returned key %s twice", hexs(k).c_str());
            if (o.size != it->second.val.size() || memcmp(o.data, it->second.val.data(), o.size) != 0) c.fail(FUNC, "hashtbl:walk-value", "walk: key %s carries the wrong value/size", hexs(k).c_str());
            see(o.data, o.size);
            if (newmem) { give_back(o.name, k + std::string(1, '\0'), "getnext(newmem).name"); give_back(o.data, it->second.val, "getnext(newmem).data"); }
        }
        int e = errno;
        if (seen.size() != m.size()) { std::string miss; for (auto &kv : m) if (!seen.count(kv.first)) { miss = kv.first; break; } c.fail(FUNC, "hashtbl:walk-missing", "walk returned %zu of %zu keys (e.g. %s never returned)", seen.size(), m.size(), hexs(miss).c_str()); }
        if (e != ENOENT) c.fail(FUNC, "hashtbl:walk-errno", "end of walk: errno=%d, expected ENOENT", e);
        if (nlook) { c.op("  (%zu lookups of other keys between the steps)", nlook); walks_with_lookups++; }
        if (pending_nt) { nt_chain += pending_nt; pending_nt = 0; }
    }
    void full_compare(const char *when) {
        for (auto &kv : m) {
            size_t sz = 0; void *p = qhashtbl_get(t, kv.first.c_str(), &sz, false);
            if (!p || sz != kv.second.val.size() || memcmp(p, kv.second.val.data(), sz) != 0)
                c.fail(FUNC, "hashtbl:get-bytes", "%s: key %s holds %s, expected %s", when, hexs(kv.first).c_str(), p ? hexs(p, sz).c_str() : "NULL", hexs(kv.second.val).c_str());
        }
        int miss = 0;
        for (auto &k : universe) if (!m.count(k)) { if (qhashtbl_get(t, k.c_str(), nullptr, false)) c.fail(FUNC, "hashtbl:get-absent", "%s: absent key %s is found", when, hexs(k).c_str()); if (++miss >= 3) break; }
        check_size(when);
    }
    void run() {
        draw_poison();
        int rk = (int)s.pick({3, 2, 2, 2, 1, 1, 2});
        static const size_t fixed[] = {1, 2, 3, 5, 16, 0};
        range = rk < 6 ? fixed[rk] : (size_t)s.range(1, 64);
        int usz = (int)s.pick({3, 3, 1});
        U = usz == 0 ? (size_t)s.range(3, 8) : usz == 1 ? (size_t)s.range(8, 40) : (size_t)s.range(40, 200);
        for (size_t i = 0; i < U; i++) universe.push_back(gen_key());
        c.op("hashtbl(range=%zu, universe=%zu)", range, U);
        vf_ledger_on = 1;
        int hopt = s.chance(1, 4) ? QHASHTBL_THREADSAFE : 0;   // a thread-safe table used by one thread behaves like a plain one
        if (hopt) c.tag("threadsafe_option_single_thread");
        t = qhashtbl(range, hopt);
        if (!t) c.fail(FUNC, "hashtbl:ctor", "qhashtbl(%zu,0) returned NULL", range);
        int maxops = c.tier ? 3000 : 500, ops = 0;
        burst_case = s.chance(1, 15);                      // key counts in the hundreds (long chains, many keys per slot), not only the small universe
        if (burst_case) { c.tag("case_with_burst_puts"); maxops = 100; }
        while (!s.exhausted() && ops++ < maxops) {
            int o = (int)s.pick({30, 16, 22, 2, 1, 6, 1, 2, 2, 2, burst_case ? 2 : 0});
            const char *what = "op";
            switch (o) {
                case 10: do_burst(); what = "burst"; break;
                case 0: do_put(universe[s.range(0, (long)U - 1)]); what = "put"; break;
                case 1: do_get(s.chance(1, 8) ? gen_key() : universe[s.range(0, (long)U - 1)]); what = "get"; break;
                case 2: do_remove(s.chance(1, 10) ? gen_key() : universe[s.range(0, (long)U - 1)]); what = "remove"; break;
                case 3: c.op("size()"); what = "size"; break;
                case 4: qhashtbl_clear(t); c.op("clear()"); note_outlived(); m.clear(); verify_kept(false); what = "clear"; break;
                case 5: do_walk(); what = "walk"; break;
                case 8: do_refused(universe[s.range(0, (long)U - 1)]); what = "refused call"; break;
                case 9: { const std::string &a = universe[s.range(0, (long)U - 1)]; const std::string &b = universe[s.range(0, (long)U - 1)]; do_put_alias(a, b); what = "aliasing put"; break; }
                case 6: { if (!devnull) devnull = fopen("/dev/null", "w"); bool ok = qhashtbl_debug(t, devnull); c.op("debug()"); if (!ok) c.fail(FUNC, "hashtbl:debug", "debug() returned false"); what = "debug"; break; }
                default: c.op("compare-all"); full_compare("full comparison"); what = "compare";
            }
            check_size(what);
            if ((ops & 15) == 0) full_compare("periodic comparison");
            c.check_san(what);
        }
        full_compare("end of history");
        c.op("final walk"); do_walk();
        note_outlived(); verify_kept(false);
        bool nonempty = !m.empty();
        qhashtbl_free(t); t = nullptr;
        c.op("free()");
        verify_kept(true);
        leak_verdict("qhashtbl_free");
        c.tag(("range_" + std::string(range == 0 ? "default" : range == 1 ? "1" : range <= 5 ? "2-5" : "6+")).c_str());
        if (nt_chain) c.tag("case_with_inner_chain_removal_or_replace_then_walk");
        if (walks_with_lookups) c.tag("case_with_lookups_inside_a_walk");
        if (c.mode == "C05") c.nontrivial = nt_chain > 0;
        else if (c.mode == "C11") c.nontrivial = removed_inner > 0 && nonempty;
        else if (c.mode == "C12") c.nontrivial = copies_outlived > 0;
    }
};
}  // namespace

bool vf_configure(Ctx &c) { return configure_container(c, "C05", FUNC); }
void run_case(Src &s, Ctx &c) { run_modes<Run>(s, c, "hashtbl"); }
