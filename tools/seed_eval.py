#!/usr/bin/env python3
"""Evaluate independently written breaking changes (from /tmp/seed/<ID>.out/) :
  1. confirm them in a scratch worktree: stock test-suite passes with the change, the demo fails
     with it and passes without it;
  2. run this repository's checks (quick tier) against the changed sources and record which
     properties' checks report a VIOLATION.
Confirmed changes are stored as seeded/<ID>-<N>/{patch.diff,demo.c,meta.json}.
Usage: tools/seed_eval.py <ID> [N ...] [--checks C01,C02] [--tier quick]"""
import json, os, re, shutil, subprocess, sys, tempfile
VERIF = os.path.dirname(os.path.dirname(os.path.abspath(__file__)))
SRC = "src/containers/*.c src/utilities/*.c src/internal/*.c src/internal/md5/*.c src/ipc/*.c src/extensions/qconfig.c src/extensions/qaconf.c src/extensions/qlog.c src/extensions/qtokenbucket.c"

def sh(cmd, cwd=None, timeout=1800, env=None):
    try:
        r = subprocess.run(cmd, shell=True, cwd=cwd, stdout=subprocess.PIPE, stderr=subprocess.STDOUT, timeout=timeout, env=env, stdin=subprocess.DEVNULL)
        return r.returncode, r.stdout.decode(errors="replace")
    except subprocess.TimeoutExpired as e:
        return 124, (e.stdout or b"").decode(errors="replace") + "\n[timeout]"

def build_demo(demo, root, out, san):
    import glob
    srcs = " ".join(sum([glob.glob(os.path.join(root, g)) for g in SRC.split()], []))
    flags = ("-fsanitize=address,undefined -fno-sanitize-recover=undefined" if san else "") + " " + os.environ.get("DEMO_CFLAGS", "")
    return sh("gcc -std=gnu99 -g -w %s -I%s/include/qlibc -I%s/src/internal %s %s -lpthread -lm -o %s" % (flags, root, root, demo, srcs, out))

def main():
    args = sys.argv[1:]
    pid = args[0]; ns = [a for a in args[1:] if a.isdigit()] or ["1", "2"]
    checks = [pid]; tier = "quick"
    for i, a in enumerate(args):
        if a == "--checks": checks = args[i + 1].split(",")
        if a == "--tier": tier = args[i + 1]
    outdir = "/tmp/seed/%s.out" % pid
    for n in ns:
        patch = os.path.join(outdir, "patch%s.diff" % n); demo = os.path.join(outdir, "demo%s.c" % n); meta = os.path.join(outdir, "meta%s.json" % n)
        if not os.path.exists(patch):
            print("%s-%s: no patch delivered" % (pid, n)); continue
        wt = tempfile.mkdtemp(prefix="seedeval-%s-%s-" % (pid, n), dir="/tmp")
        os.rmdir(wt)
        rec = dict(id="%s-%s" % (pid, n))
        try:
            rc, o = sh("git -C /repo worktree add --detach %s HEAD -q" % wt)
            rc, o = sh("git apply %s" % patch, cwd=wt)
            if rc: print("%s-%s: patch does not apply: %s" % (pid, n, o[:200])); continue
            rc, o = sh("cmake -G Ninja -B _build >/dev/null && cmake --build _build >/dev/null 2>&1 && ctest --test-dir _build -j8 --timeout 900 2>&1 | tail -3", cwd=wt)
            rec["tests_pass_with_change"] = "100% tests passed" in o
            san = os.path.exists(demo) and "fsanitize" in open(demo, errors="replace").read() and "--nosan" not in sys.argv
            if os.path.exists(demo):
                b1, o1 = build_demo(demo, wt, wt + "/demo_with", san); r1, o1r = sh("timeout %s %s/demo_with" % (os.environ.get("DEMO_TIMEOUT", "20"), wt)) if b1 == 0 else (999, o1)
                b0, o0 = build_demo(demo, "/repo", wt + "/demo_without", san); r0, o0r = sh("timeout %s %s/demo_without" % (os.environ.get("DEMO_TIMEOUT", "20"), wt)) if b0 == 0 else (999, o0)
                rec["demo_with_change_rc"] = r1; rec["demo_without_change_rc"] = r0
                rec["demo_output_with_change"] = (o1r if b1 == 0 else o1)[-300:]
            rec["confirmed"] = bool(rec.get("tests_pass_with_change") and rec.get("demo_with_change_rc", 0) not in (0, 999) and rec.get("demo_without_change_rc", 1) == 0)
            # run the checks against the changed sources
            res = {}
            env = dict(os.environ, VERIF_REPO=wt, VERIF_EVIDENCE_DIR=wt + "/_ev", VERIF_REPLAY_DIR=wt + "/_replays")
            for c in checks:
                rc, o = sh("%s/check %s --tier %s" % (VERIF, c, tier), env=env, timeout=3600)
                sigs = sorted(set(re.findall(r"sig=(\S+)", o)))
                res[c] = dict(detected="VIOLATION property=%s" % c in o, rc=rc, sigs=sigs[:6], summary=[l for l in o.splitlines() if " %s:" % tier in l][-1:] )
                if res[c]["detected"] and os.environ.get("SAVE_REGRESS"):
                    import glob
                    os.makedirs(os.path.join(VERIF, "regress", c), exist_ok=True)
                    for f in glob.glob(os.path.join(wt, "_replays", c, "*.bin"))[:2]:
                        base = os.path.basename(f).rsplit("-", 1)[0]
                        dstf = os.path.join(VERIF, "regress", c, "%s-seed%s.%s-%s" % (base, pid, n, os.path.basename(f).rsplit("-", 1)[1]))
                        shutil.copyfile(f, dstf)
                        if os.path.exists(f + ".meta.json"): shutil.copyfile(f + ".meta.json", dstf + ".meta.json")
            rec["checks"] = res
            m = {}
            try: m = json.load(open(meta))
            except Exception: pass
            print(json.dumps(dict(rec, summary=m.get("summary", "")[:160]), indent=None))
            if rec["confirmed"]:
                d = os.path.join(VERIF, "seeded", "%s-%s" % (pid, n)); os.makedirs(d, exist_ok=True)
                shutil.copyfile(patch, d + "/patch.diff")
                if os.path.exists(demo): shutil.copyfile(demo, d + "/demo.c")
                m.update(dict(breaks_property=pid, confirmed_by=dict(tests_pass_with_change=True, demo_with_change_rc=rec["demo_with_change_rc"], demo_without_change_rc=0,
                          how="tools/seed_eval.py: scratch worktree of /repo HEAD + patch; cmake/ctest 10/10; demo built with gcc against patched and unpatched sources"),
                          detected_by={c: v["detected"] for c, v in res.items()}, detection_signatures={c: v["sigs"] for c, v in res.items()}, tier=tier))
                json.dump(m, open(d + "/meta.json", "w"), indent=1)
        finally:
            sh("git -C /repo worktree remove --force %s" % wt); shutil.rmtree(wt, ignore_errors=True)

main()
