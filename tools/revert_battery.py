#!/usr/bin/env python3
"""Second sensitivity battery: every `fix:` commit of /repo is reverted on a scratch copy of the
sources and the check of the property it was recorded under (KNOWN_FINDINGS.txt `fixed:` lines)
must report a VIOLATION within its quick budget.  Scratch trees live under /dev/shm and are
removed afterwards.  Usage: tools/revert_battery.py [commit-prefix ...]"""
import os, re, shutil, subprocess, sys, tempfile
VERIF = os.path.dirname(os.path.dirname(os.path.abspath(__file__)))
want = sys.argv[1:]
rows = []
for line in open(os.path.join(VERIF, "KNOWN_FINDINGS.txt")):
    m = re.match(r"fixed: property=(C\d+) ([0-9a-f]{7,}) (.*)", line.strip())
    if m and (not want or any(m.group(2).startswith(w) for w in want)):
        rows.append(m.groups())
ok = True
for pid, commit, text in rows:
    d = tempfile.mkdtemp(prefix="revert-", dir="/dev/shm")
    try:
        shutil.copytree("/repo/src", d + "/repo/src"); shutil.copytree("/repo/include", d + "/repo/include")
        diff = subprocess.run(["git", "-C", "/repo", "diff", commit + "^", commit], capture_output=True).stdout
        r = subprocess.run(["patch", "-R", "-p1", "-d", d + "/repo", "--no-backup-if-mismatch", "-s"], input=diff, capture_output=True)
        if r.returncode != 0:
            print("%s %s  REVERT DID NOT APPLY CLEANLY (later fix touches the same lines): %s" % (pid, commit, r.stdout.decode()[:200].replace("\n", " ")))
            continue
        env = dict(os.environ, VERIF_REPO=d + "/repo", VERIF_EVIDENCE_DIR=d + "/ev", VERIF_REPLAY_DIR=d + "/replays")
        out = subprocess.run([os.path.join(VERIF, "check"), pid, "--tier", "quick"], env=env, capture_output=True, text=True).stdout
        sigs = re.findall(r"sig=(\S+)", out)
        hit = "VIOLATION property=%s" % pid in out
        if hit and os.environ.get("SAVE_REGRESS"):
            # keep the shrunk inputs as the replay tier of this property (they must pass on the repaired tree)
            import glob
            os.makedirs(os.path.join(VERIF, "regress", pid), exist_ok=True)
            for f in glob.glob(os.path.join(d, "replays", pid, "*.bin"))[:2]:
                base = os.path.basename(f).rsplit("-", 1)[0]        # <harness>-<mode>
                dstf = os.path.join(VERIF, "regress", pid, "%s-fix%s-%s" % (base, commit, os.path.basename(f).rsplit("-", 1)[1]))
                shutil.copyfile(f, dstf)
                if os.path.exists(f + ".meta.json"): shutil.copyfile(f + ".meta.json", dstf + ".meta.json")
        ok &= hit
        print("%s %s  %s  %s   [%s]" % (pid, commit, "DETECTED" if hit else "MISSED  ", ",".join(sorted(set(sigs)))[:120], text[:70]))
    finally:
        shutil.rmtree(d, ignore_errors=True)
sys.exit(0 if ok else 1)
