#!/bin/bash
# tools/coverage.sh [ID ...] - which lines of the library do the generated cases of the quick tier execute?
# Exploration aid ("measure what the generator actually produces"): builds the harnesses with clang's
# source-based coverage (build flavour `cov`, no sanitizers), runs the quick tier of the named checks
# (default: all 20) with outputs redirected to a scratch directory under /dev/shm, merges the profiles and
# prints per-file line coverage plus every library function that has unexecuted lines.  Jobs that name their
# own flavour (asan0, tsan) and the libFuzzer jobs are not instrumented.  Nothing is written to evidence/.
set -u
V=$(cd "$(dirname "$0")/.." && pwd)
D=$(mktemp -d /dev/shm/vcov.XXXXXX); trap 'rm -rf "$D"' EXIT
ids=("$@"); [ ${#ids[@]} -eq 0 ] && ids=(C01 C02 C03 C04 C05 C06 C07 C08 C09 C10 C11 C12 C13 C14 C15 C16 C17 C18 C19 C20)
for id in "${ids[@]}"; do
  VERIF_FLAVOR=cov LLVM_PROFILE_FILE="$D/$id-%p.profraw" VERIF_EVIDENCE_DIR="$D/ev" VERIF_REPLAY_DIR="$D/rp" \
    "$V/check" "$id" --tier quick 2>&1 | grep -E "^C[0-9]+ quick|VIOLATION" | sed 's/^/  /'
done
llvm-profdata-14 merge -sparse "$D"/*.profraw -o "$D/all.profdata" 2>/dev/null || { echo "no profiles"; exit 2; }
objs=(); for b in "$V"/build/bin/*-cov-*; do if [ ${#objs[@]} -eq 0 ]; then objs+=("$b"); else objs+=(-object "$b"); fi; done
REPO=${VERIF_REPO:-/repo}
llvm-cov-14 report "${objs[@]}" -instr-profile="$D/all.profdata" "$REPO/src" 2>/dev/null | awk 'NR<3 || /src\// || /TOTAL/' | cut -c1-200
echo; echo "== functions with unexecuted lines (file:function missed/total lines) =="
llvm-cov-14 report "${objs[@]}" -instr-profile="$D/all.profdata" -show-functions "$REPO"/src/containers/*.c "$REPO"/src/utilities/*.c "$REPO"/src/extensions/qaconf.c "$REPO"/src/extensions/qconfig.c "$REPO"/src/internal/*.c 2>/dev/null \
  | awk '/^File /{f=$2} /^[A-Za-z_]/ && $1!="File" && $1!="Name" && $1!="TOTAL" { if ($6+0>0) printf "%s %s %d/%d\n", f, $1, $6, $5 }' | sed "s#'$REPO/##;s#':##"
for f in ${COV_BRANCHES:-}; do   # COV_BRANCHES="src/..." : branches of which one side was never taken
  echo "== one-sided branches of $f =="
  llvm-cov-14 show "${objs[@]}" -instr-profile="$D/all.profdata" -show-branches=count "$REPO/$f" 2>/dev/null \
    | awk '/^ +[0-9]+\|/{line=$0} /Branch \(/{ if ($0 ~ /True: 0[,\]]/ || $0 ~ /False: 0[,\]]/) { if (line!=last) print substr(line,1,150); last=line; print "        " $0 } }'
done
for f in ${COV_SHOW:-}; do   # COV_SHOW="src/containers/qlist.c ..." : listing of the unexecuted lines of these files
  echo "== unexecuted lines of $f =="
  llvm-cov-14 show "${objs[@]}" -instr-profile="$D/all.profdata" "$REPO/$f" 2>/dev/null | grep -E "^ +[0-9]+\| +0\|" | cut -c1-160
done
