#!/bin/bash
# recheck.sh <seed-id> <check> [tier]: apply seeded/<seed-id>/patch.diff to a scratch worktree, run the check against it
id=$1; chk=$2; tier=${3:-quick}
wt=/tmp/recheck-$id-$$
git -C /repo worktree add --detach $wt HEAD -q && git -C $wt apply /verif/seeded/$id/patch.diff || { echo "apply failed"; exit 2; }
VERIF_REPO=$wt VERIF_EVIDENCE_DIR=$wt/_ev VERIF_REPLAY_DIR=$wt/_rp /verif/check $chk --tier $tier 2>&1 | grep -E "VIOLATION|$tier:" | sed "s/^/[$id] /"
git -C /repo worktree remove --force $wt; rm -rf $wt
