#!/bin/bash
# tools/mutant.sh <ID[,ID..]> <sed-expr> <file-relative-to-repo> [tier]
# Sensitivity experiment: copy /repo's sources to a scratch tree, apply one sed edit, run the
# checks against it (evidence and replays redirected to the scratch dir), remove the tree.
set -u
IDS=$1; EXPR=$2; FILE=$3; TIER=${4:-quick}
D=$(mktemp -d /dev/shm/mut-XXXXXX)
mkdir -p $D/repo && cp -r /repo/src /repo/include $D/repo/
before=$(sha1sum $D/repo/$FILE)
sed -i -E "$EXPR" $D/repo/$FILE
after=$(sha1sum $D/repo/$FILE)
if [ "$before" == "$after" ]; then echo "MUTATION DID NOT APPLY"; rm -rf $D; exit 2; fi
diff <(cd /repo && cat $FILE) $D/repo/$FILE | head -8
for id in ${IDS//,/ }; do
  VERIF_REPO=$D/repo VERIF_EVIDENCE_DIR=$D/ev VERIF_REPLAY_DIR=$D/replays /verif/check $id --tier $TIER 2>&1 | cut -c1-400 | grep -E "VIOLATION|sig=|quick:|thorough:|ERROR|BUILD" | head -6
done
rm -rf $D
