#!/usr/bin/env python3
"""Writes seeded/README.md from the meta.json files of the confirmed seeded changes."""
import json, os, glob
VERIF = os.path.dirname(os.path.dirname(os.path.abspath(__file__)))
rows = []
for d in sorted(glob.glob(os.path.join(VERIF, "seeded", "C*-*"))):
    m = json.load(open(os.path.join(d, "meta.json")))
    det = m.get("detected_by", {}); sigs = m.get("detection_signatures", {})
    rows.append((os.path.basename(d), m.get("breaks_property", "?"), m.get("summary", "").replace("|", "/").replace("\n", " ")[:230],
                 m.get("needs_to_manifest", "").replace("|", "/").replace("\n", " ")[:200],
                 ", ".join("%s: %s" % (c, ("**caught** (" + ", ".join(sigs.get(c, [])[:2]) + ")") if v else "missed") for c, v in det.items())))
out = ["# Independently written breaking changes", "",
       "Each directory holds one change written by a sub-agent that was given only the text of one property and a scratch",
       "worktree of /repo (nothing from /verif): `patch.diff` (apply with `git -C /repo apply`), `demo.c` (fails with the change,",
       "passes without it) and `meta.json` (what it breaks, what it needs to manifest, how it was confirmed, which checks caught it).",
       "Every change was confirmed by `tools/seed_eval.py` in a fresh scratch worktree: the stock test-suite passes 10/10 with the",
       "change, the demo fails with it and passes without it.  The checks were then run (quick tier) against the changed sources.",
       "", "| id | property | change | needs | quick-tier verdict |", "|---|---|---|---|---|"]
for r in rows:
    out.append("| %s | %s | %s | %s | %s |" % r)
missed = [r[0] for r in rows if "missed" in r[4] and "caught" not in r[4]]
notcounted = {}
for d in sorted(glob.glob(os.path.join(VERIF, "seeded", "C*-*"))):
    a = json.load(open(os.path.join(d, "meta.json"))).get("assessment", "")
    if a.startswith("not counted"): notcounted[os.path.basename(d)] = a
out += ["", "Changes caught by the check of the property they were written against, or (where noted) by the check of the property",
        "the breakage really belongs to: %d of %d.  %s" % (len(rows) - len(missed), len(rows), ("Not caught: " + ", ".join(missed)) if missed else "None is missed."), ""]
if notcounted:
    out += ["Of the changes not caught, these are kept but deliberately not asserted by any check (they rely on behaviour that neither", "the documentation nor a listed property defines):", ""]
    for k, v in notcounted.items(): out.append("* %s - %s" % (k, v))
    out.append("")
open(os.path.join(VERIF, "seeded", "README.md"), "w").write("\n".join(out))
print("\n".join(out[-4:]))
